"""C06 — ensemble CRPS is the exact CRPS of the ensemble, and its weighted parts add up."""
from __future__ import annotations

import itertools
import math
from fractions import Fraction

import numpy as np
import xarray as xr

from sv import core

PROPERTY = "C06"
GEN = ["CrpsEns"]
PROPS = ["ScoresVerif/Props/C06Gen.lean", "ScoresVerif/Props/C06.lean", "ScoresVerif/Props/C06Bridge.lean", "ScoresVerif/Props/C06Tw.lean",
         "ScoresVerif/Props/C06TwBridge.lean", "ScoresVerif/Props/C06Components.lean", "ScoresVerif/Props/C06ComponentsBridge.lean"]
DRIVER_DEPS = ["ScoresVerif.Driver.C06", "ScoresVerif.Driver.C06Gen"]
AUDIT_FILES = ["ScoresVerif/Lemmas/Bridge.lean", "ScoresVerif/Lemmas/CrpsEns.lean", "ScoresVerif/Lemmas/CrpsEnsBrier.lean", "ScoresVerif/Lemmas/CrpsEnsC06Tw.lean", "ScoresVerif/Lemmas/C06TwBridge.lean", "ScoresVerif/Lemmas/C06Components.lean", "ScoresVerif/Lemmas/C06ComponentsBridge.lean", "ScoresVerif/Model/CrpsEns.lean", "ScoresVerif/Spec/CrpsEns.lean"]
LEVEL = "proof"
TRUSTED = ["row translator tools/py2lean_row.py + tools/gen/CrpsEns.py: crps_for_ensemble (per case), its component block, the tail / interval "
           "chaining functions and the tw call sites are regenerated from the source on every run; Props/C06Gen.lean proves regenerated = "
           "Model/CrpsEns.lean, and the regenerated code is also run against the real function; the brier per-case formula stays a hand "
           "model tied by correspondence (its kernel is translated under C13)",
           "(no longer trusted) the step integral equals Mathlib's Lebesgue interval integral: Props/C06Bridge.lean crpsEns_ecdf_eq_lebesgue, "
           "crpsEns_fair_eq_lebesgue, brier_lebesgue_eq_crps_lebesgue"]
ASSUMPTIONS = ["inputs are dyadic (k/4, |k|<=64) so float + - x and comparisons are exact; quotients compared to 1e-9",
               "fcst / obs / threshold / weights arrays carry the same coordinate labels in the same stored order "
               "(alignment is C04: F12)",
               "float rounding, overflow, signed zero and infinite inputs are not modelled"]
MANIFEST = dict(
    level="proof",
    text="Kernel-checked Lean theorems about a line-by-line model of crps_for_ensemble and its tail/interval/chaining "
         "variants, for ensembles of any size over the rationals: 'ecdf' equals the exact step-function integral of "
         "(F_ens - 1{x>=obs})^2 (also with NaN members, which are dropped), 'fair' equals that integral minus the documented "
         "offset (one valid member: NaN), total = under + over - spread, lower tail + interval + upper tail = CRPS for "
         "every split a<=b, both methods and all four components, invariance under member permutation (all components, incl. NaN), translation and "
         "|a|-scaling, non-negativity and zero iff every member equals the observation, and the exact threshold integral of the documented "
         "ensemble Brier score (with and without fair correction; the per-case Brier formula of the model is proved equal to "
         "it) equals the 'ecdf' / 'fair' CRPS; and each threshold-weighted value on its own (lower / upper tail, interval, generic "
         "tw with a clip chaining function; scalar or per-case thresholds; NaN members dropped) equals the exact integral of "
         "1[a,b)(t)(F_ens(t) - 1{t>=obs})^2 of the untransformed ensemble ('fair': minus the offset of the clipped members), "
         "also as a Lebesgue integral over [a,b] (Props/C06Tw.lean, Props/C06TwBridge.lean). The model is tied to the code by a "
         "differential correspondence over all four public functions (both methods, components, weights, reductions, scalar "
         "and per-case thresholds, NaN members); the same statements plus 'tw value = weighted integral' and 'integral of "
         "the real brier_score_for_ensemble over all thresholds = CRPS (fair and not)' are evaluated on the implementation "
         "against the Lean integral spec in exact arithmetic (also 'fair' tw values = weighted integral - offset of the "
         "chained members; also through tw_crps_for_ensemble + chaining_func_kwargs with differing defaults; for every "
         "kind of ensemble-member coordinate incl. duplicate labels, which the value must not depend on; the Brier thresholds are "
         "handed over as list / tuple / numpy array / pandas Index / pandas Series with default, permuted, shifted, string and "
         "other-threshold-valued index / single float, int, numpy float64, float or integer storage, and every Brier value is read back "
         "by its threshold VALUE and compared with the Lean per-threshold value), exhaustively for <=3 members over a 4-value pool in thorough.",
    note="Trusted: Lean kernel; propext/Classical.choice/Quot.sound; the hand-written model (no translator: the code uses "
         "isel loops / concat) tied only by correspondence on dyadic inputs with tolerance 1e-9; SV.Fl (IEEE minus rounding, "
         "overflow, signed zero). Not proved, only compared: the under/over components of a single tw value as weighted "
         "integrals (their sums over the partition are proved), weights/mean reduction beyond 'per-case values are the per-case "
         "integrals'. Not modelled: alignment of differently ordered coordinates (C04/F12), "
         "gather_dimensions (C01), infinite inputs. Fair CRPS with one valid member is NaN (F8, not a defect); in that "
         "situation the NaN-skipping mean over cases averages different case sets per component, so total = under+over-"
         "spread is checked per case.",
    technique="Lean 4 theorems over a hand model + differential correspondence + exact-integral oracle",
    design="6/C06")
RULE = ("one case = (function incl. tw_crps_for_ensemble called directly with chaining_func_kwargs and a chaining function "
        "whose defaults differ from the supplied thresholds, method, components, members per forecast case incl. NaN, "
        "ensemble-member coordinate none/unique/duplicate (lagged 0,1,2,0,1,2)/strings/unsorted/NaN, obs, thresholds "
        "scalar/per-case, weights, reduction); values from a small dyadic pool with >= 50 % ties among members/obs/thresholds; "
        "Brier-integral cases additionally draw the container of the event thresholds (list, tuple, ndarray, pandas Index, "
        "pandas Series with default / permuted (sort_values) / shifted / string / other-threshold-valued index, integer storage "
        "when all thresholds are integers) and one grid threshold passed as a single number (float / int / numpy float64); "
        "distinct = distinct canonical call; non-trivial = at least one non-NaN output and not malformed")

COMPS = ["total", "under", "over", "spread"]
COMP_LABEL = {"total": "total", "under": "underforecast_penalty", "over": "overforecast_penalty", "spread": "spread"}
NAN = float("nan")


# ----------------------------------------------------------------------------- running the implementation
def _name(s):
    return "".join(list(s))  # freshly built str object


def _thr(v, labels):
    """scalar threshold stays a python float; a list becomes a per-case DataArray"""
    if isinstance(v, list):
        return xr.DataArray(np.array(v, dtype=float), dims=["c"], coords={"c": labels})
    return float(v)


def build(call):
    mem = np.array(call["members"], dtype=float)
    n, M = mem.shape
    labels = list(call.get("labels") or range(n))
    md = _name(call.get("member_dim", "ens"))
    coords = {"c": labels}
    ml = call.get("member_labels")
    if ml is not None:
        # coordinate on the ensemble-member dimension: the score must not depend on it (duplicates, strings, unsorted)
        coords[md] = np.array(ml, dtype=object) if any(isinstance(v, str) for v in ml) else np.array(ml)
    fc = xr.DataArray(mem, dims=["c", md], coords=coords)
    if call.get("layout") == "mc":
        fc = fc.transpose(md, "c").copy()
    ob = xr.DataArray(np.array(call["obs"], dtype=float), dims=["c"], coords={"c": labels})
    if call.get("obs_perm") and sorted(call["obs_perm"]) == list(range(n)):
        # the observation stores the same case labels in another order: alignment is by label
        ob = ob.isel(c=list(call["obs_perm"]))
    w = None
    if call.get("weights") is not None:
        w = xr.DataArray(np.array(call["weights"], dtype=float), dims=["c"], coords={"c": labels})
    return fc, ob, w, md, labels


def red_kwargs(call):
    r = call.get("reduce", "cases")
    if r == "cases":
        return {"preserve_dims": call.get("preserve_spelling", "all") if call.get("preserve_spelling") != "list" else [_name("c")]}
    sp = call.get("reduce_spelling")
    if sp == "list":
        return {"reduce_dims": [_name("c")]}
    if sp == "all":
        return {"reduce_dims": "all"}
    return {}


KW_FNS = {"kw_upper": "upper", "kw_lower": "lower", "kw_interval": "interval"}
INF = float("inf")


def _kw_value(v, labels, form):
    """a threshold handed over through chaining_func_kwargs: python float / numpy scalar / 0-d or per-case DataArray"""
    if isinstance(v, list):
        return xr.DataArray(np.array(v, dtype=float), dims=["c"], coords={"c": labels})
    if form == "np":
        return np.float64(v)
    if form == "da0":
        return xr.DataArray(float(v))
    return float(v)


def chain_upper(default, shifted):
    def upper_tail(x, threshold=default):
        v = np.maximum(x, threshold)
        return v - threshold if shifted else v
    return upper_tail


def chain_lower(default, shifted):
    def lower_tail(x, threshold=default):
        v = np.minimum(x, threshold)
        return v - threshold if shifted else v
    return lower_tail


def chain_interval(dlo, dhi, shifted):
    def interval(x, lower=dlo, upper=dhi):
        v = np.minimum(np.maximum(x, lower), upper)
        return v - lower if shifted else v
    return interval


def run_kw(call, fc, ob, md, labels, kw):
    """tw_crps_for_ensemble called DIRECTLY with a reusable chaining function whose threshold parameters have defaults
    (call["kw_default"], different from the wanted values); the wanted thresholds go through chaining_func_kwargs"""
    from scores.probability import tw_crps_for_ensemble
    fn, form, d = call["fn"], call.get("kw_form", "float"), call.get("kw_default")
    shifted = bool(call.get("kw_shifted"))
    if fn == "kw_interval":
        d = d if isinstance(d, list) else [0.0, 1.0]
        f = chain_interval(float(d[0]), float(d[1]), shifted)
        kwargs = {_name("lower"): _kw_value(call["a"], labels, form), _name("upper"): _kw_value(call["b"], labels, form)}
    else:
        d = 0.0 if d is None else float(d)
        f = (chain_upper if fn == "kw_upper" else chain_lower)(d, shifted)
        kwargs = {_name("threshold"): _kw_value(call["t"], labels, form)}
    return tw_crps_for_ensemble(fc, ob, md, f, chaining_func_kwargs=kwargs, **kw)


def run_impl(call):
    """returns {"total": [...], ...} (per-case values, or a single mean) or {"err": class}"""
    from scores.probability import (crps_for_ensemble, interval_tw_crps_for_ensemble, tail_tw_crps_for_ensemble,
                                    tw_crps_for_ensemble)
    fc, ob, w, md, labels = build(call)
    kw = dict(method=call["method"], weights=w, include_components=bool(call.get("components")))
    kw.update(red_kwargs(call))
    fn = call["fn"]
    try:
        with np.errstate(all="ignore"):
            if fn == "plain":
                r = crps_for_ensemble(fc, ob, md, **kw)
            elif fn in ("upper", "lower"):
                r = tail_tw_crps_for_ensemble(fc, ob, md, _thr(call["t"], labels), tail=call.get("tail", fn), **kw)
            elif fn == "interval":
                r = interval_tw_crps_for_ensemble(fc, ob, md, _thr(call["a"], labels), _thr(call["b"], labels), **kw)
            elif fn == "tw_upper":  # the generic entry point with a user chaining function
                t = _thr(call["t"], labels)
                r = tw_crps_for_ensemble(fc, ob, md, lambda x, t=t: np.maximum(x, t), **kw)
            elif fn in KW_FNS:
                r = run_kw(call, fc, ob, md, labels, kw)
            else:
                raise RuntimeError("bad fn")
    except Exception as ex:  # noqa: BLE001
        return {"err": core.exc_class(ex)}
    out = {}
    for c in (COMPS if call.get("components") else ["total"]):
        a = r.sel(component=COMP_LABEL[c]) if call.get("components") else r
        if "c" in a.dims:
            a = a.sel(c=labels)
        out[c] = [float(v) for v in np.asarray(a.values, dtype=float).ravel()]
    return out


def kind_of(fn):
    return {"tw_upper": "upper", **KW_FNS}.get(fn, fn)


def per_case(v, k, n):
    return v[k] if isinstance(v, list) else v


def model_op(call):
    fn = call["fn"]
    kind = kind_of(fn)
    n = len(call["obs"])
    cases = []
    for k in range(n):
        c = {"xs": [core.fl_str(x) for x in call["members"][k]], "y": core.fl_str(call["obs"][k])}
        if kind in ("upper", "lower"):
            c["t"] = core.fl_str(per_case(call["t"], k, n))
        if kind == "interval":
            c["a"] = core.fl_str(per_case(call["a"], k, n))
            c["b"] = core.fl_str(per_case(call["b"], k, n))
        cases.append(c)
    w = None if call.get("weights") is None else [core.fl_str(x) for x in call["weights"]]
    return {"op": "c06.run", "args": {"kind": kind, "method": call["method"], "cases": cases, "weights": w}}


# ----------------------------------------------------------------------------- generators
def pool_vals(rng, k=4):
    return [core.dyadic(rng, -8, 8) for _ in range(k)]


def draw(rng, pool, others, p_tie=0.55):
    if others and rng.random() < p_tie:
        return rng.choice(others)
    if rng.random() < 0.7:
        return rng.choice(pool)
    return core.dyadic(rng, -8, 8)


MEMBER_LABEL_STYLES = ["none", "unique", "lagged", "same", "strings", "strings-dup", "unsorted", "float-desc", "nan"]


def gen_member_labels(rng, M, style=None):
    """coordinate labels of the ensemble-member dimension (None = no coordinate); JSON-able"""
    style = style or rng.choice(["none", "none", "unique", "lagged", "lagged", "lagged", "same", "strings", "strings-dup",
                                 "unsorted", "float-desc", "nan"])
    if style == "none":
        return None
    if style == "unique":
        return list(range(M))
    if style == "lagged":                      # two or three concatenated runs: 0,1,2,0,1,2
        k = max(1, (M + 1) // 2) if rng.random() < 0.7 else max(1, (M + 2) // 3)
        return [i % k for i in range(M)]
    if style == "same":
        return [7] * M
    if style == "strings":
        return rng.sample(["q", "b", "zz", "a", "m10", "m9", "B", "c"], M)
    if style == "strings-dup":
        return [rng.choice(["run_b", "run_a", "ctl"]) for _ in range(M)]
    if style == "unsorted":
        return rng.sample([30, -2, 11, 5, 100, 0, 7, 8], M)
    if style == "float-desc":
        return [2.5 - 0.5 * (i // 2) for i in range(M)] if rng.random() < 0.5 else [float(M - i) for i in range(M)]
    return [NAN] * M


def gen_kw_default(rng, fn, call, allv):
    """defaults of the reusable chaining function: always different from the supplied thresholds, and mostly placed
    so that some observation is chained differently by the default and by the supplied value"""
    lo = min(allv) if allv else 0.0
    hi = max(allv) if allv else 0.0
    n = len(call["obs"])

    def differs(d, t):
        return all(math.isnan(x) or x != d for x in (t if isinstance(t, list) else [t]))
    if fn == "kw_interval":
        for _ in range(20):
            d = rng.choice([[-INF, INF], [0.0, 1.0], [lo - 1.0, lo - 0.5], [hi + 0.5, hi + 1.0], [lo - 1.0, hi + 1.0],
                            sorted([core.dyadic(rng, -8, 8), core.dyadic(rng, -8, 8) + 0.25])])
            if d[0] < d[1] and (differs(d[0], call["a"]) or differs(d[1], call["b"])):
                return d
        return [-INF, INF]
    ident = -INF if fn == "kw_upper" else INF        # the default leaves every value alone
    for _ in range(20):
        d = rng.choice([ident, ident, 0.0, hi + 1.0, lo - 1.0, core.dyadic(rng, -8, 8), -ident])
        if differs(d, call["t"]):
            return d
    return ident


def gen_call(rng, fn=None, force=None):
    force = force or {}
    n = rng.choice([1, 1, 2, 3, 4])
    M = rng.choice([1, 1, 2, 2, 3, 4, 5, 6])
    pool = pool_vals(rng, rng.choice([2, 3, 4]))
    members, obs = [], []
    for _ in range(n):
        row = []
        style = rng.random()
        for _ in range(M):
            row.append(draw(rng, pool, row))
        if style < 0.12:
            row = [row[0]] * M                      # all members equal
        y = draw(rng, pool, row, 0.6)
        if style < 0.06:
            y = row[0]                              # perfect forecast
        # NaN members
        if rng.random() < 0.3:
            for i in range(M):
                if rng.random() < 0.35:
                    row[i] = NAN
        if rng.random() < 0.05:
            row = [NAN] * M
        if rng.random() < 0.07:
            y = NAN
        members.append(row)
        obs.append(y)
    fn = fn or rng.choice(["plain", "plain", "upper", "lower", "interval", "tw_upper", "kw_upper", "kw_lower", "kw_interval"])
    call = {"fn": fn, "method": rng.choice(["ecdf", "fair"]), "components": rng.random() < 0.5,
            "members": members, "obs": obs, "layout": rng.choice(["cm", "mc"]),
            "member_dim": rng.choice(["ens", "member", "m"]),
            "labels": rng.choice([list(range(n)), [10 * (n - i) for i in range(n)]]),
            "reduce": rng.choice(["cases", "cases", "mean"]),
            "preserve_spelling": rng.choice(["all", "list"]), "reduce_spelling": rng.choice([None, "list", "all"]),
            "member_labels": gen_member_labels(rng, M)}
    allv = [v for r in members for v in r if not math.isnan(v)] + [v for v in obs if not math.isnan(v)]

    def thr():
        if rng.random() < 0.5:
            return draw(rng, pool, allv, 0.7)
        t = [draw(rng, pool, [v for v in members[k] if not math.isnan(v)] + ([obs[k]] if not math.isnan(obs[k]) else []), 0.7)
             for k in range(n)]
        if rng.random() < 0.06 and not force.get("no_nan_thr"):
            t[rng.randrange(n)] = NAN
        return t
    if fn in ("upper", "lower", "tw_upper", "kw_upper", "kw_lower"):
        call["t"] = thr()
    if fn in ("interval", "kw_interval"):
        a, b = thr(), thr()
        # mostly well ordered; sometimes leave a >= b to exercise the guard (the generic entry point has no guard)
        if rng.random() < 0.85 or fn == "kw_interval":
            a, b = order_bounds(a, b, n)
        call["a"], call["b"] = a, b
    if fn in KW_FNS:
        call["kw_default"] = gen_kw_default(rng, fn, call, allv)
        call["kw_form"] = rng.choice(["float", "float", "np", "da0"])
        call["kw_shifted"] = rng.random() < 0.25
    if rng.random() < 0.4:
        call["weights"] = [rng.choice([0.0, 0.5, 1.0, 1.0, 2.0, 3.0, NAN]) if rng.random() < 0.9 else NAN for _ in range(n)]
        if rng.random() < 0.8:
            call["weights"] = [1.0 if math.isnan(x) else x for x in call["weights"]]
    # NUMERIC SCALE class: the same ensemble far from zero (pressure in Pa, epoch seconds): every value, threshold and
    # observation shifted by a large exactly representable offset.  Differences stay exact, so the model value is the
    # translate of the original one; a tolerance that scales with |value| (np.isclose) bites exactly here.
    if fn in ("plain", "upper", "lower", "interval", "tw_upper") and rng.random() < 0.18 and not force.get("no_shift"):
        off = rng.choice([2.0 ** 17, -(2.0 ** 20), 101325.0, 2.0 ** 30, 1.7e9])
        sh = lambda v: v if (isinstance(v, float) and math.isnan(v)) else v + off   # noqa: E731
        call["members"] = [[sh(v) for v in row] for row in call["members"]]
        call["obs"] = [sh(v) for v in call["obs"]]
        for key in ("t", "a", "b"):
            if key in call:
                call[key] = [sh(v) for v in call[key]] if isinstance(call[key], list) else sh(call[key])
        call["offset"] = off
    if n > 1 and rng.random() < 0.3:
        perm = list(range(n))
        rng.shuffle(perm)
        call["obs_perm"] = perm
    call.update(force.get("set", {}))
    return call


def order_bounds(a, b, n):
    """make lower < upper case by case (keeping scalar / per-case shapes)"""
    if not isinstance(a, list) and not isinstance(b, list):
        lo, hi = min(a, b), max(a, b)
        return (lo, hi) if lo < hi else (lo, lo + 0.5)
    al = a if isinstance(a, list) else [a] * n
    bl = b if isinstance(b, list) else [b] * n
    if not isinstance(a, list):      # scalar lower: push the per-case upper above it
        return a, [x if (math.isnan(x) or x > a) else a + 0.75 for x in bl]
    if not isinstance(b, list):
        return [x if (math.isnan(x) or x < b) else b - 0.75 for x in al], b
    lo, hi = [], []
    for x, y in zip(al, bl):
        if math.isnan(x) or math.isnan(y):
            lo.append(x); hi.append(y)
        elif x == y:
            lo.append(x); hi.append(y + 0.25)
        else:
            lo.append(min(x, y)); hi.append(max(x, y))
    return lo, hi


# ----------------------------------------------------------------------------- comparison helpers
def cmp_lists(impl, exp, close):
    if len(impl) != len(exp):
        return False
    return all(close(a, b) for a, b in zip(impl, exp))


def nontrivial(res):
    return "err" not in res and any(not math.isnan(v) for vs in res.values() for v in vs)


def describe(call):
    return {k: v for k, v in call.items()}


# ----------------------------------------------------------------------------- tie X
# ----------------------------------------------------------------------------- tie T validated: regenerated code vs implementation
def check_gen(ctx, calls):
    """the Lean code REGENERATED from crps_for_ensemble / the tw wrappers (Gen/CrpsEns.lean, row translator) is run case by case on
    the same ensembles as the real functions (include_components=True, preserve all) — a translator error shows up here, a source
    change shows up in the theorems of Props/C06Gen.lean."""
    ops, metas = [], []
    for call in calls:
        if call["fn"] not in ("plain", "upper", "lower", "interval") or call.get("malformed"):
            continue
        c2 = dict(call, components=True, weights=None, reduce="cases", preserve_spelling="all")
        res = run_impl(c2)
        if "err" in res:
            continue
        n = len(call["members"])
        for k in range(n):
            kind = call["fn"]
            if kind in ("upper", "lower") and call.get("tail", kind) != kind:
                kind = call["tail"]
            args = {"xs": [core.fl_str(v) for v in call["members"][k]], "y": core.fl_str(call["obs"][k]), "method": call["method"], "kind": kind}
            if kind in ("upper", "lower"):
                args["t"] = core.fl_str(per_case(call["t"], k, n))
            if kind == "interval":
                args["a"] = core.fl_str(per_case(call["a"], k, n)); args["b"] = core.fl_str(per_case(call["b"], k, n))
            ops.append({"op": "c06.gen_case", "args": args})
            metas.append((call, k, {c: res[c][k] for c in COMPS}))
    if not ops:
        return
    try:
        out = core.run_driver("C06Gen", ops)
    except Exception as ex:   # the regenerated module does not build / run: an obligation, not a violation by itself
        ctx.fail("gen-vs-impl", "correspondence", "crps_for_ensemble", "gen-driver", {"error": str(ex)[-400:]}, observed="driver failed",
                 expected="regenerated code runs", tags={"site": "crps_for_ensemble"}, theorem="gen_components_eq_model")
        return
    for (call, k, impl), m in zip(metas, out):
        desc = {"fn": call["fn"], "method": call["method"], "members": call["members"][k], "obs": call["obs"][k],
                "t": call.get("t"), "a": call.get("a"), "b": call.get("b")}
        ctx.case("gen-vs-impl", desc)
        bad = [c for c in COMPS if not core.close(impl[c], core.parse_fl(m[COMP_LABEL[c]]))]
        if not core.close(impl["total"], core.parse_fl(m["total_only"])):
            bad.append("total(include_components=False)")
        if bad:
            ctx.fail("gen-vs-impl", "correspondence", "crps_for_ensemble:" + call["fn"], "gen-value", desc,
                     observed={c: impl.get(c) for c in COMPS}, expected={c: m[COMP_LABEL[c]] for c in COMPS},
                     tags={"fn": call["fn"], "method": call["method"], "components": bad}, theorem="gen_components_eq_model")


def correspondence(ctx):
    rng = ctx.rng
    calls = [gen_call(rng) for _ in range(ctx.n(500, 12000))]
    check_gen(ctx, calls[:ctx.n(150, 2000)])
    # malformed stream: bad method / bad tail (documented ValueError)
    mal = []
    for _ in range(ctx.n(20, 200)):
        c = gen_call(rng, fn=rng.choice(["plain", "upper", "interval"]))
        if c["fn"] == "upper" and rng.random() < 0.5:
            c["tail"] = rng.choice(["Upper", "both", ""])
        else:
            c["method"] = rng.choice(["ECDF", "unfair", ""])
        if c["fn"] == "interval":
            c["a"], c["b"] = order_bounds(c["a"], c["b"], len(c["obs"]))
        mal.append(c)
    for c in mal:
        r = run_impl(c)
        ctx.case("malformed-arguments", describe(c), nontrivial=False)
        ctx.tag("malformed")
        if r.get("err") != "ValueError":
            ctx.fail("malformed-arguments", "correspondence", c["fn"], "guard", describe(c), observed=r, expected={"err": "ValueError"},
                     tags={"fn": c["fn"]})
    mres = core.run_driver("C06", [model_op(c) for c in calls])
    for c, m in zip(calls, mres):
        r = run_impl(c)
        ctx.case("impl-vs-model", describe(c), nontrivial=nontrivial(r))
        ctx.tag("fn:" + c["fn"]); ctx.tag("method:" + c["method"])
        if c.get("components"):
            ctx.tag("components")
        if c.get("weights") is not None:
            ctx.tag("weights")
        if any(math.isnan(v) for row in c["members"] for v in row):
            ctx.tag("nan-member")
        ml = c.get("member_labels")
        ctx.tag("member-labels:" + ("none" if ml is None else "duplicate" if len(set(map(str, ml))) < len(ml) else "unique"))
        if isinstance(c.get("t"), list) or isinstance(c.get("a"), list) or isinstance(c.get("b"), list):
            ctx.tag("per-case-threshold")
        if "fail" in m:
            raise RuntimeError(f"driver: {m}")
        if "err" in m or "err" in r:
            ctx.tag("guard-raises")
            if m.get("err") != r.get("err"):
                ctx.fail("impl-vs-model", "correspondence", c["fn"], "exception", describe(c), observed=r, expected=m,
                         tags={"fn": c["fn"]})
            continue
        for comp, vals in r.items():
            exp = m[comp]["cases"] if c["reduce"] == "cases" else [m[comp]["mean"]]
            if not cmp_lists(vals, exp, core.close):
                ctx.fail("impl-vs-model", "correspondence", c["fn"], "value:" + comp, describe(c), observed=vals, expected=exp,
                         tags={"fn": c["fn"], "component": comp, "method": c["method"]})
                break


# ----------------------------------------------------------------------------- the property on the implementation
def fnanmean(vals):
    v = [x for x in vals if not (isinstance(x, float) and math.isnan(x))]
    if not v:
        return NAN
    return sum(v, Fraction(0)) / len(v)


def fmul(a, b):
    if core.is_nan(a) or (isinstance(b, float) and math.isnan(b)):
        return NAN
    return a * Fraction(b)


def apply_reduction(call, per_case_exact):
    """expected output of the call from exact per-case values (weights, then mean over the cases)"""
    vals = list(per_case_exact)
    if call.get("weights") is not None:
        vals = [fmul(v, w) for v, w in zip(vals, call["weights"])]
    return vals if call["reduce"] == "cases" else [fnanmean(vals)]


def spec_ops(call, a=None, b=None):
    n = len(call["obs"])
    ops = []
    for k in range(n):
        args = {"xs": [core.fl_str(x) for x in call["members"][k]], "y": core.fl_str(call["obs"][k])}
        ak = None if a is None else per_case(a, k, n)
        bk = None if b is None else per_case(b, k, n)
        if ak is not None:
            args["a"] = core.fl_str(ak)
        if bk is not None:
            args["b"] = core.fl_str(bk)
        ops.append({"op": "c06.spec", "args": args})
    return ops


def has_nan_thr(call):
    for key in ("t", "a", "b"):
        v = call.get(key)
        if v is None:
            continue
        if any(math.isnan(x) for x in (v if isinstance(v, list) else [v])):
            return True
    return False


def clip_call(call):
    """the chained ensemble v(x), v(y) computed from the exact values (min / max of dyadics are exact)"""
    a, b = tw_bounds(call)
    n = len(call["obs"])

    def v(x, k):
        if math.isnan(x):
            return x
        if a is not None:
            x = max(x, per_case(a, k, n))
        if b is not None:
            x = min(x, per_case(b, k, n))
        return x
    return dict(call, members=[[v(x, k) for x in row] for k, row in enumerate(call["members"])],
                obs=[v(y, k) for k, y in enumerate(call["obs"])])


def tw_bounds(call):
    fn = kind_of(call["fn"])
    if fn == "upper":
        return call["t"], None
    if fn == "lower":
        return None, call["t"]
    if fn == "interval":
        return call["a"], call["b"]
    return None, None


# ----------------------------------------------------------------------------- containers of event thresholds
# brier_score_for_ensemble(event_thresholds: Real | Sequence[Real]): the score at threshold VALUE t is a function of t and
# of the ensemble only -- never of the container the thresholds arrive in, nor of any labels that container carries
# (a pandas Series has an INDEX next to its values; after sort_values() / a filter the index is permuted / not 0..n-1).
THR_CONTAINERS = ["list", "list", "tuple", "ndarray", "ndarray", "series", "series-perm", "series-perm", "series-rot",
                  "series-rot", "series-offset", "series-str", "pd-index"]
TUPLE_DEFECT = "N-C06-1"    # notes/C06.md: a tuple of thresholds is rejected (ValueError) by the unchanged code


def gen_thr_form(rng, grid):
    """how the grid of thresholds is handed over: {"container", "index" (labels of a Series; JSON-able), "ints"}"""
    n = len(grid)
    kind = rng.choice(THR_CONTAINERS)
    form = {"container": kind}
    if kind == "series-perm":       # what pd.Series(unsorted).sort_values() leaves behind: a permutation of 0..n-1
        perm = list(range(n))
        for _ in range(4):
            rng.shuffle(perm)
            if perm != list(range(n)):
                break
        form["index"] = perm
    elif kind == "series-rot":      # index labels that ARE threshold values -- of other thresholds
        k = rng.randrange(1, n) if n > 1 else 0
        form["index"] = (grid[k:] + grid[:k]) if rng.random() < 0.6 else list(reversed(grid))
    elif kind == "series-offset":   # a filtered Series: increasing integer labels that are not 0..n-1
        start, step = rng.choice([1, 5, -3]), rng.choice([1, 2])
        form["index"] = [start + step * i for i in range(n)]
    elif kind == "series-str":
        form["index"] = rng.sample(["t%d" % i for i in range(n)], n)
    # integer-valued thresholds stored as integers (python int / int64): the model value of an int 7 is 7
    form["ints"] = bool(all(float(g).is_integer() and abs(g) < 2.0 ** 53 for g in grid) and rng.random() < 0.35)
    return form


def thr_container(grid, form):
    import pandas as pd
    vals = [int(g) for g in grid] if form.get("ints") else [float(g) for g in grid]
    kind = form.get("container", "list")
    if kind == "tuple":
        return tuple(vals)
    if kind == "ndarray":
        return np.array(vals)
    if kind == "pd-index":
        return pd.Index(vals)
    if kind.startswith("series"):
        idx = form.get("index")
        return pd.Series(vals) if idx is None else pd.Series(vals, index=list(idx))
    return list(vals)


def gen_thr_scalar(rng, grid):
    """one threshold of the grid handed over as a single number"""
    j = rng.randrange(len(grid))
    forms = ["float", "np.float64"] + (["int", "int"] if float(grid[j]).is_integer() and abs(grid[j]) < 2.0 ** 53 else [])
    return {"j": j, "form": rng.choice(forms)}


def thr_scalar(grid, sc):
    t = grid[sc["j"]]
    return int(t) if sc["form"] == "int" else np.float64(t) if sc["form"] == "np.float64" else float(t)


def brier_by_value(bs, grid, labels, tdim="threshold"):
    """Brier values looked up by threshold VALUE: (array case x grid, None) or (None, description of what is wrong with
    the threshold coordinate of the result)"""
    got = [float(v) for v in np.asarray(bs[tdim].values).ravel()] if tdim in bs.coords else None
    # every requested threshold value labels exactly one column (the grid has no duplicates); values are read by label
    if got is None or len(got) != len(grid) or sorted(got) != sorted(grid):
        return None, {"threshold_coordinate": got, "dims": [str(d) for d in bs.dims], "shape": list(bs.shape)}
    if "c" in bs.dims:
        bs = bs.sel(c=labels)
    else:
        return None, {"threshold_coordinate": got, "dims": [str(d) for d in bs.dims], "shape": list(bs.shape)}
    cols = [np.asarray(bs.sel({tdim: t}).values, dtype=float).reshape(len(labels)) for t in grid]
    return np.stack(cols, axis=1), None


class Checker:
    """evaluates the statements of C06 on the implementation for a list of calls; used by the oracle and by replay"""

    def __init__(self, ctx, batch_kind="property"):
        self.ctx = ctx
        self.kind = batch_kind
        self.fails = []

    def fail(self, batch, call, sig, observed, expected, theorem=None, extra=None, tags=None):
        case = {"check": batch, "call": describe(call)}
        if extra:
            case.update(extra)
        self.fails.append(batch)
        self.ctx.fail(batch, self.kind, call["fn"], sig, case, observed=observed, expected=expected,
                      tags=dict({"fn": call["fn"], "method": call["method"], "check": batch}, **(tags or {})), theorem=theorem)

    # -- 1. value = exact integral (Lean Spec through the driver); fair = integral - documented offset
    def integral(self, calls):
        ops, idx = [], []
        for ci, c in enumerate(calls):
            if has_nan_thr(c):
                continue
            a, b = tw_bounds(c)
            if c["fn"] != "plain" and c["method"] == "fair":
                # fair tw value = weighted integral of the untransformed ensemble - fairOffset of the chained members
                o = spec_ops(c, a, b) + spec_ops(clip_call(c))
            else:
                o = spec_ops(c, a, b)
            idx.append((ci, len(ops), len(o)))
            ops += o
        res = core.run_driver("C06", ops)
        for ci, s, k in idx:
            c = calls[ci]
            r = run_impl(c)
            self.ctx.case("value-eq-integral", describe(c), nontrivial=nontrivial(r))
            if "err" in r:
                if c["fn"] == "interval" and interval_bad(c):
                    continue
                self.fail("value-eq-integral", c, "exception", r, "a value")
                continue
            sp = res[s:s + k]
            if c["fn"] == "plain":
                exact = [core.parse_fl(x[c["method"]]) for x in sp]
                thm = "crpsEns_ecdf_eq_integral" if c["method"] == "ecdf" else "crpsEns_fair_eq_integral_sub_offset"
            elif c["method"] == "ecdf":
                exact = [core.parse_fl(x["tw"]) if "tw" in x else NAN for x in sp]
                thm = "tw_ecdf_eq_weighted_integral"
            else:
                n = len(c["obs"])
                exact = []
                for x, xc in zip(sp[:n], sp[n:]):
                    e, f = core.parse_fl(xc["ecdf"]), core.parse_fl(xc["fair"])
                    exact.append(NAN if ("tw" not in x or core.is_nan(e) or core.is_nan(f))
                                 else core.parse_fl(x["tw"]) - (e - f))
                thm = "tw_fair_eq_weighted_integral_sub_offset"
            exp = apply_reduction(c, exact)
            if not cmp_lists(r["total"], exp, core.close):
                self.fail("value-eq-integral", c, "value", r["total"], exp, thm)
            # non-negativity and zero iff every member equals the observation ('ecdf', unweighted cases)
            if c["fn"] == "plain" and c["method"] == "ecdf" and c["reduce"] == "cases" and c.get("weights") is None:
                for kk, v in enumerate(r["total"]):
                    xs = [x for x in c["members"][kk] if not math.isnan(x)]
                    y = c["obs"][kk]
                    if math.isnan(v):
                        if xs and not math.isnan(y):
                            self.fail("value-eq-integral", c, "nan-for-valid-case", v, "a number")
                        continue
                    alleq = all(x == y for x in xs)
                    if v < -1e-12 or (abs(v) <= 1e-12) != alleq:
                        self.fail("value-eq-integral", c, "sign-or-zero", v, "0 iff all members equal obs, else > 0",
                                  "crps_ecdf_nonneg / crps_ecdf_eq_zero_iff")

    # -- 2. total = under + over - spread
    def decomposition(self, calls):
        for c in calls:
            c = dict(c, components=True)
            if c["reduce"] == "mean" and c["method"] == "fair" and any(
                    sum(1 for x in row if not math.isnan(x)) == 1 for row in c["members"]):
                # F8: a single valid member gives total = spread = NaN (0/0) but penalties 0; the NaN-skipping mean over
                # cases then averages different sets of cases per component, so the identity is a per-case statement
                c["reduce"] = "cases"
            r = run_impl(c)
            self.ctx.case("total-eq-under-over-spread", describe(c), nontrivial=nontrivial(r))
            if "err" in r:
                continue
            for k in range(len(r["total"])):
                rhs = r["under"][k] + r["over"][k] - r["spread"][k]
                if not core.close_ff(r["total"][k], rhs):
                    self.fail("total-eq-under-over-spread", c, "sum", r["total"][k], rhs, "total_eq_under_add_over_sub_spread")
                    break
                if not math.isnan(r["under"][k]) and (r["under"][k] < -1e-12 or r["over"][k] < -1e-12):
                    self.fail("total-eq-under-over-spread", c, "negative-penalty", [r["under"][k], r["over"][k]], ">= 0")
                    break

    # -- 3. lower tail + interval + upper tail = unweighted CRPS  (a < b, no NaN thresholds)
    def partition(self, calls):
        for c in calls:
            if c["fn"] not in ("interval", "kw_interval") or interval_bad(c) or has_nan_thr(c):
                continue
            if c["fn"] == "kw_interval":     # the three parts through tw_crps_for_ensemble + chaining_func_kwargs
                d = c.get("kw_default") or [0.0, 1.0]
                parts = [dict(c, fn="kw_lower", t=c["a"], kw_default=d[1]), c, dict(c, fn="kw_upper", t=c["b"], kw_default=d[0])]
            else:
                parts = [dict(c, fn="lower", t=c["a"]), c, dict(c, fn="upper", t=c["b"])]
            for p in parts:
                p.pop("tail", None)
            whole = dict(c, fn="plain")
            rs = [run_impl(p) for p in parts]
            rw = run_impl(whole)
            self.ctx.case("tails-plus-interval-eq-crps", describe(c), nontrivial=nontrivial(rw))
            if any("err" in r for r in rs + [rw]):
                self.fail("tails-plus-interval-eq-crps", c, "exception", [r.get("err") for r in rs + [rw]], "values")
                continue
            for comp in rw:
                for k in range(len(rw[comp])):
                    s = rs[0][comp][k] + rs[1][comp][k] + rs[2][comp][k]
                    if not core.close_ff(s, rw[comp][k]):
                        self.fail("tails-plus-interval-eq-crps", c, "sum:" + comp, s, rw[comp][k], "tail_interval_tail_eq_crps",
                                  {"parts": [r[comp][k] for r in rs]})
                        break

    # -- 4. integrating the real ensemble Brier score over all thresholds reproduces the CRPS
    def brier_integral(self, calls):
        from scores.probability import brier_score_for_ensemble
        ops, idx = [], []
        for ci, c in enumerate(calls):
            if c["fn"] != "plain":
                continue
            o = spec_ops(c)
            idx.append((ci, len(ops), len(o)))
            ops += o
        res = core.run_driver("C06", ops)
        work, bops = [], []
        for ci, s, k in idx:
            c = dict(calls[ci], reduce="cases", weights=None, components=False)
            fair = c["method"] == "fair"
            sp = res[s:s + k]
            gridset = sorted({core.parse_fl(g) for x in sp for g in x.get("grid", [])})
            if len(gridset) < 1:
                continue
            grid = [float(g) for g in gridset]
            fc, ob, _, md, labels = build(c)
            r = run_impl(c)
            self.ctx.case("brier-integral-eq-crps", describe(c), nontrivial=nontrivial(r))
            # the thresholds are handed over in every container the signature allows (recorded in the call: replayable)
            if not c.get("thr_form"):
                c["thr_form"] = gen_thr_form(self.ctx.rng, grid)
            if not c.get("thr_scalar"):
                c["thr_scalar"] = gen_thr_scalar(self.ctx.rng, grid)
            form = c["thr_form"]
            self.ctx.tag("thresholds:" + form["container"] + ("+ints" if form.get("ints") else ""))
            bs = None
            for attempt in (form, dict(form, container="list")):
                try:
                    with np.errstate(all="ignore"):
                        bs = brier_score_for_ensemble(fc, ob, md, thr_container(grid, attempt), preserve_dims="all",
                                                      fair_correction=fair)
                    break
                except Exception as ex:  # noqa: BLE001
                    if attempt["container"] == "tuple" and isinstance(ex, ValueError):
                        # N-C06-1 (notes/C06.md): reported under its own tags; the values are then checked through a list
                        self.fail("brier-integral-eq-crps", c, "threshold-container-tuple:exception", core.exc_class(ex),
                                  "the same values as for list(event_thresholds)", "brierEns_eq_doc",
                                  {"grid": grid}, tags={"defect": TUPLE_DEFECT, "container": "tuple"})
                        continue
                    self.fail("brier-integral-eq-crps", c, "exception", core.exc_class(ex) + ": " + str(ex)[:200], "values",
                              None, {"grid": grid})
                    break
            if bs is None:
                continue
            B, wrong = brier_by_value(bs, grid, labels)
            if B is None:
                self.fail("brier-integral-eq-crps", c, "threshold-coordinate", wrong,
                          {"threshold_coordinate": grid, "dims": ["c", "threshold"], "shape": [len(labels), len(grid)]},
                          "brierEns_eq_doc", {"grid": grid})
                continue
            if "err" in r:
                continue
            work.append((c, fair, sp, grid, labels, r, B, len(bops)))
            bops += [{"op": "c06.brier_at", "args": {"xs": [core.fl_str(x) for x in c["members"][kk]], "y": core.fl_str(c["obs"][kk]),
                                                     "thetas": [core.fl_str(g) for g in grid], "fair": fair}}
                     for kk in range(len(labels))]
        ball = core.run_driver("C06", bops)
        for c, fair, sp, grid, labels, r, B, b0 in work:
            # the integrand itself: real Brier values at every grid threshold = documented per-case formula (exact)
            bres = ball[b0:b0 + len(labels)]
            bad = False
            for kk in range(len(labels)):
                for key, kind in (("spec", "property"), ("model", "correspondence")):
                    if not cmp_lists(list(B[kk]), bres[kk][key], core.close):
                        self.kind, old_kind = kind, self.kind
                        self.fail("brier-integral-eq-crps", c, "brier-value-vs-" + key, B[kk].tolist(), bres[kk][key],
                                  "brierEns_eq_doc", {"grid": grid, "case_index": kk})
                        self.kind = old_kind
                        bad = True
                        break
                if bad:
                    break
            if not bad:
                self.scalar_threshold(c, fair, grid, labels, bres)
            for kk in range(len(labels)):
                nvalid = sum(1 for x in c["members"][kk] if not math.isnan(x))
                if fair and nvalid <= 1:
                    continue  # F8: fair CRPS of a single member is NaN (0/0); Brier's correction is defined as 0 there
                integ = sum((grid[j + 1] - grid[j]) * B[kk, j + 1] for j in range(len(grid) - 1)) if len(grid) > 1 else 0.0
                if len(grid) == 1 and math.isnan(B[kk, 0]):
                    integ = NAN
                want = sp[kk].get("brier_int_fair" if fair else "brier_int", "nan")
                if not core.close_ff(integ, r["total"][kk]):
                    self.fail("brier-integral-eq-crps", c, "integral-of-brier-vs-crps", integ, r["total"][kk],
                              "brier_integral_eq_crps", {"grid": grid, "brier": B[kk].tolist(), "case_index": kk})
                    break
                if not core.close(integ, want):
                    self.fail("brier-integral-eq-crps", c, "integral-of-brier-vs-spec", integ, want,
                              "brier_integral_eq_crps", {"grid": grid, "brier": B[kk].tolist(), "case_index": kk})
                    break

    def scalar_threshold(self, c, fair, grid, labels, bres):
        """one threshold of the grid handed over as a single number (python float / int, numpy float64): the value is the
        Lean per-threshold value at that threshold, labelled with it"""
        from scores.probability import brier_score_for_ensemble
        sc = c["thr_scalar"]
        if sc["j"] >= len(grid):
            return
        t = thr_scalar(grid, sc)
        self.ctx.tag("thresholds:scalar-" + sc["form"])
        fc, ob, _, md, _ = build(c)
        try:
            with np.errstate(all="ignore"):
                bs = brier_score_for_ensemble(fc, ob, md, t, preserve_dims="all", fair_correction=fair)
        except Exception as ex:  # noqa: BLE001
            self.fail("brier-integral-eq-crps", c, "scalar-threshold:exception", core.exc_class(ex) + ": " + str(ex)[:200],
                      "values", "brierEns_eq_doc", {"grid": grid, "threshold": float(t)})
            return
        B1, wrong = brier_by_value(bs, [float(t)], labels)
        if B1 is None:
            self.fail("brier-integral-eq-crps", c, "scalar-threshold-coordinate", wrong, {"threshold_coordinate": [float(t)]},
                      "brierEns_eq_doc", {"grid": grid, "threshold": float(t)})
            return
        exp = [bres[kk]["spec"][sc["j"]] for kk in range(len(labels))]
        if not cmp_lists([float(v) for v in B1[:, 0]], exp, core.close):
            self.fail("brier-integral-eq-crps", c, "scalar-threshold-value-vs-spec", B1[:, 0].tolist(), exp, "brierEns_eq_doc",
                      {"grid": grid, "threshold": float(t)})

    # -- 5. invariances between implementation runs: member order, translation, scaling, NaN members dropped
    def invariance(self, calls):
        rng = self.ctx.rng
        for c in calls:
            r0 = run_impl(c)
            self.ctx.case("invariances", describe(c), nontrivial=nontrivial(r0))
            if "err" in r0:
                continue
            # permutation (an independent permutation of the members of every case)
            pc = dict(c, members=[rng.sample(row, len(row)) for row in c["members"]])
            self._same("invariances", c, pc, r0, 1.0, "member-order", "crps_perm")
            # translation by a dyadic constant (thresholds move along)
            d = rng.choice([-3.0, -0.25, 0.5, 1.0, 7.25])
            sh = lambda v: None if v is None else ([x + d for x in v] if isinstance(v, list) else v + d)
            tc = dict(c, members=[[x + d for x in row] for row in c["members"]], obs=[y + d for y in c["obs"]])
            for key in ("t", "a", "b"):
                if key in c:
                    tc[key] = sh(c[key])
            self._same("invariances", c, tc, r0, 1.0, "translation", "crps_translate")
            # scaling (plain CRPS; negative factors swap the tails so the tw variants are scaled by a > 0 only)
            a = rng.choice([-2.0, -1.0, -0.5, 0.0, 0.5, 2.0, 4.0]) if c["fn"] == "plain" else rng.choice([0.5, 2.0, 4.0])
            mul = lambda v: None if v is None else ([x * a for x in v] if isinstance(v, list) else v * a)
            sc = dict(c, members=[[x * a for x in row] for row in c["members"]], obs=[y * a for y in c["obs"]])
            for key in ("t", "a", "b"):
                if key in c:
                    sc[key] = mul(c[key])
            if a < 0 and c.get("components"):
                # x -> -x swaps under- and over-forecast penalties
                r0s = dict(r0, under=r0["over"], over=r0["under"])
            else:
                r0s = r0
            self._same("invariances", c, sc, r0s, abs(a), "scaling", "crps_scale")
            # NaN members are dropped: every case evaluated alone with its missing members physically removed
            for k, row in enumerate(c["members"]):
                xs = [x for x in row if not math.isnan(x)]
                if len(xs) == len(row) or not xs:
                    continue
                ml = c.get("member_labels")
                one = dict(c, members=[xs], obs=[c["obs"][k]], labels=[0], reduce="cases", weights=None,
                           member_labels=None if ml is None else [l for l, x in zip(ml, row) if not math.isnan(x)])
                for key in ("t", "a", "b"):
                    if key in c:
                        one[key] = [c[key][k]] if isinstance(c[key], list) else c[key]
                ref = dict(one, members=[row], member_labels=ml)
                rr = run_impl(ref)
                if "err" in rr:
                    continue
                self._same("invariances", ref, one, rr, 1.0, "nan-member-dropped", "crps_nan_members_dropped")

    # -- 6. the score is a function of the member VALUES: the labels of the ensemble-member coordinate do not matter
    def member_labels(self, calls):
        rng = self.ctx.rng
        for c in calls:
            M = len(c["members"][0])
            base = dict(c, member_labels=None)
            r0 = run_impl(base)
            self.ctx.case("member-label-independence", describe(c), nontrivial=nontrivial(r0))
            if "err" in r0:
                continue
            styles = [s for s in MEMBER_LABEL_STYLES if s != "none"]
            mine = c.get("member_labels")
            variants = ([mine] if mine is not None else []) + [gen_member_labels(rng, M, st) for st in rng.sample(styles, 3)]
            variants.append([i % max(1, (M + 1) // 2) for i in range(M)])          # lagged 0,1,2,0,1,2
            for ml in variants:
                cv = dict(c, member_labels=ml)     # reported call = the labelled one (the replay re-runs exactly it)
                if not self._agree("member-label-independence", cv, run_impl(cv), r0, "member-labels",
                                   "the model has no member labels: the value is a function of the member values only",
                                   {"reference": "the same call without a member coordinate"}):
                    break

    # -- 7. tw_crps_for_ensemble + chaining_func_kwargs = the dedicated tail / interval function, whatever the defaults
    def generic_vs_dedicated(self, calls):
        for c in calls:
            if c["fn"] not in KW_FNS or has_nan_thr(c):
                continue
            ded = dict(c, fn=KW_FNS[c["fn"]])
            ded.pop("tail", None)
            r0 = run_impl(ded)
            self.ctx.case("generic-kwargs-eq-dedicated", describe(c), nontrivial=nontrivial(r0))
            if "err" in r0:
                continue
            if not self._agree("generic-kwargs-eq-dedicated", c, run_impl(c), r0, "generic-vs-dedicated",
                               "tw_ecdf_eq_weighted_integral / tw_fair_eq_weighted_integral_sub_offset",
                               {"reference": "tail_/interval_tw_crps_for_ensemble with the same thresholds"}):
                continue
            # another default of the reusable chaining function must not change anything
            alt = dict(c, kw_default=([-INF, INF] if c["fn"] == "kw_interval" else (-INF if c["fn"] == "kw_upper" else INF)),
                       kw_shifted=not c.get("kw_shifted"))
            self._agree("generic-kwargs-eq-dedicated", c, run_impl(alt), r0, "default-independence",
                        "tw_ecdf_eq_weighted_integral / tw_fair_eq_weighted_integral_sub_offset", {"variant": describe(alt)})

    def _agree(self, batch, c, r, r0, sig, thm, extra):
        """r (run of the reported call c, or of a variant of it) must equal the reference run r0"""
        if "err" in r:
            self.fail(batch, c, sig + ":exception", r, r0, thm, extra)
            return False
        for comp in r0:
            if not cmp_lists(r[comp], r0[comp], core.close_ff):
                self.fail(batch, c, sig, r[comp], r0[comp], thm, dict(extra, component=comp))
                return False
        return True

    def _same(self, batch, c, c2, r0, factor, sig, thm):
        r2 = run_impl(c2)
        if "err" in r2:
            self.fail(batch, c, sig + ":exception", r2, r0, thm, {"variant": describe(c2)})
            return
        for comp in r0:
            exp = [v * factor if not math.isnan(v) else v for v in r0[comp]]
            if not cmp_lists(r2[comp], exp, core.close_ff):
                self.fail(batch, c, sig, r2[comp], exp, thm, {"variant": describe(c2), "component": comp, "factor": factor})
                return


def interval_bad(c):
    n = len(c["obs"])
    al = c["a"] if isinstance(c["a"], list) else [c["a"]] * n
    bl = c["b"] if isinstance(c["b"], list) else [c["b"]] * n
    return any((not math.isnan(x)) and (not math.isnan(y)) and x >= y for x, y in zip(al, bl))


def exhaustive_calls():
    """every ensemble with <= 3 members over a 4-value pool x 4 obs, as one call per (M, fn, method, thresholds)"""
    pool = [-1.0, 0.0, 0.5, 2.0]
    thr_pairs = [(0.0, 0.5), (0.0, 2.0), (-1.0, 0.5)]
    calls = []
    for M in (1, 2, 3):
        rows, obs = [], []
        for xs in itertools.product(pool, repeat=M):
            for y in pool:
                rows.append(list(xs)); obs.append(y)
        for method in ("ecdf", "fair"):
            # member labels must not matter: duplicates ('fair') / unsorted strings ('ecdf') on the member coordinate
            ml = [7] * M if method == "fair" else ["q", "b", "zz"][:M]
            base = {"method": method, "components": True, "members": rows, "obs": obs, "layout": "cm", "member_dim": "ens",
                    "labels": list(range(len(obs))), "reduce": "cases", "member_labels": ml}
            calls.append(dict(base, fn="plain"))
            for a, b in thr_pairs:
                calls.append(dict(base, fn="interval", a=a, b=b))
                calls.append(dict(base, fn="lower", t=a))
                calls.append(dict(base, fn="upper", t=b))
                # the same three parts through tw_crps_for_ensemble + chaining_func_kwargs (defaults: other thresholds)
                calls.append(dict(base, fn="kw_interval", a=a, b=b, kw_default=[0.5, 1.0]))
                calls.append(dict(base, fn="kw_lower", t=a, kw_default=2.0))
                calls.append(dict(base, fn="kw_upper", t=b, kw_default=-1.0))
    return calls


def oracle(ctx, boost):
    rng = ctx.rng
    k = 5 if boost else 1
    ch = Checker(ctx)
    n1 = ctx.n(150, 4000) * k
    ch.integral([gen_call(rng, force={"no_nan_thr": True}) for _ in range(n1)])
    ch.decomposition([gen_call(rng) for _ in range(ctx.n(80, 2000) * k)])
    part = []
    for _ in range(ctx.n(60, 1500) * k):
        c = gen_call(rng, fn=rng.choice(["interval", "kw_interval"]), force={"no_nan_thr": True})
        c["a"], c["b"] = order_bounds(c["a"], c["b"], len(c["obs"]))
        part.append(c)
    ch.partition(part)
    ch.brier_integral([gen_call(rng, fn="plain") for _ in range(ctx.n(80, 2000) * k)])
    ch.invariance([gen_call(rng, force={"no_nan_thr": True}) for _ in range(ctx.n(50, 1200) * k)])
    ch.member_labels([gen_call(rng) for _ in range(ctx.n(60, 500) * k)])
    ch.generic_vs_dedicated([gen_call(rng, fn=rng.choice(list(KW_FNS)), force={"no_nan_thr": True})
                             for _ in range(ctx.n(60, 600) * k)])
    if ctx.thorough or boost:
        ex = exhaustive_calls()
        ctx.exhaustive.append("all ensembles with <= 3 members over the pool {-1,0,1/2,2} x 4 obs x 3 threshold pairs, "
                              "both methods, with components, duplicate / string member labels, dedicated and generic (chaining_func_kwargs) "
                              "tw entry points: integral, decomposition, partition, Brier integral, generic = dedicated")
        ch.integral(ex)
        ch.decomposition([c for c in ex if c["fn"] == "plain"])
        ch.partition([c for c in ex if c["fn"] in ("interval", "kw_interval")])
        ch.generic_vs_dedicated([c for c in ex if c["fn"] in KW_FNS])
        ch.brier_integral([c for c in ex if c["fn"] == "plain"])


def replay(ctx, payload):
    case = payload["case"]
    call = case.get("call", case)
    check = case.get("check")
    ctx2 = core.Ctx("C06", "quick", payload.get("seed", 0))
    ch = Checker(ctx2)
    table = {"value-eq-integral": ch.integral, "total-eq-under-over-spread": ch.decomposition,
             "tails-plus-interval-eq-crps": ch.partition, "brier-integral-eq-crps": ch.brier_integral,
             "invariances": ch.invariance, "member-label-independence": ch.member_labels,
             "generic-kwargs-eq-dedicated": ch.generic_vs_dedicated}
    call = revive(call)
    if check in table:
        for _ in range(6 if check in ("invariances", "member-label-independence") else 1):
            table[check]([call])
    else:
        for f in table.values():
            f([call])
    return bool(ctx2.failures)


def revive(o):
    """undo core.canon: 'nan' strings back to float NaN"""
    if isinstance(o, dict):
        return {k: revive(v) for k, v in o.items()}
    if isinstance(o, list):
        return [revive(v) for v in o]
    if o == "nan":
        return NAN
    if o == "inf":
        return INF
    if o == "-inf":
        return -INF
    return o
