"""C07 — CRPS for CDF forecasts equals the exact threshold-weighted integral."""
from __future__ import annotations

import itertools
import math
from fractions import Fraction

import numpy as np
import xarray as xr

from sv import core
from sv import cdf_c17c07 as cc

PROPERTY = "C07"
GEN = ["Cdf"]
PROPS = ["ScoresVerif/Props/C07.lean", "ScoresVerif/Props/C07Refine.lean", "ScoresVerif/Props/C07Bridge.lean",
         "ScoresVerif/Props/C07Cases.lean", "ScoresVerif/Props/C07BridgeTrapz.lean"]
AUDIT_FILES = ["ScoresVerif/Lemmas/Bridge.lean", "ScoresVerif/Lemmas/C07Bridge.lean", "ScoresVerif/Lemmas/C07PipelineCases.lean",
               "ScoresVerif/Lemmas/C07PipelineCasesW.lean", "ScoresVerif/Lemmas/C07BridgeTrapz.lean"]
DRIVER_DEPS = ["ScoresVerif.Driver.C07"]
LEVEL = "proof"
TRUSTED = ["xarray interpolate_na / ffill / bfill / shift / integrate / sum(min_count) / broadcast are modelled by their documented "
           "meaning (Model/Cdf.lean, Model/CrpsCdf.lean) and tied to the library by the correspondence check only",
           "(no longer trusted) the exact method's cell sums equal the Lebesgue integral of w(x)(F(x)-H(x))^2 with Mathlib's "
           "intervalIntegral: Props/C07Bridge.lean exact_eq_lebesgue (total, under, over), using Mathlib's fundamental theorem of calculus"]
ASSUMPTIONS = ["ordinates and weights are dyadic (k/8), thresholds / observations small integers or halves: float arithmetic is exact "
               "or compared to 1e-9; on the scaled grids (base + unit*k: 1e5, 2^30, 1e9, epoch seconds, 2^40, 1 + k*2^-20, k*2^-20, "
               "k*2^-30, negative ranges, non-uniform gaps 1..1000 units) every threshold / observation is an exactly representable "
               "float64 (asserted in rationals), scores are compared to 1e-9 relative to the value and the row total, observed_cdf "
               "values and threshold grids exactly", "thresholds and observations are finite or NaN (no infinities)",
               "the score is observed per forecast case (preserve_dims = all non-threshold dims); the mean over cases is checked as a relation"]
MANIFEST = dict(
    level="proof",
    text="Kernel-checked Lean theorems about an executable model of crps_cdf_exact / crps_cdf_trapz / crps_cdf_brier_decomposition "
         "(grids of any length): the code's piece formula equals Delta(p^2+pq+q^2)/3 = Simpson of the squared linear piece (exact for "
         "quadratics: equals the antiderivative difference); for EVERY right-continuous step weight and every position of the "
         "observation on the grid, total / underforecast / overforecast of the exact method equal the weighted cell sums "
         "Sum w_cell * Simpson((lin - H)^2) (full strength after the repair of F3/F3b, commit c6c9dbb); under + over = total and both "
         ">= 0 for non-negative weights; the trapezoid method equals the trapezoid sums of the sampled integrand and, for w = 1, the "
         "trapezoid integral of the Brier decomposition (total and both components); weights summing to one give scores summing to the "
         "unweighted score (exact and trapz); any NaN in a case makes exactly that case NaN. The pointwise kernels are regenerated from "
         "the source by the AST translator on every run; the whole pipeline (grid = union of fcst / all obs / weight / additional "
         "thresholds, 4 fill methods for forecast and weight, propagate_nans, components, guards) is tied by a differential "
         "correspondence over all 4 x 2 x 2 option combinations per case, and an independent oracle compares the implementation with "
         "the exact integral computed by the Lean Spec from the ORIGINAL knots (fill as a function of the knots), plus the relations. "
         "The oracle also runs on thresholds / observations at large and small numeric scale (exactly representable values at 1e5 ... "
         "2^40 and 2^-30, observation a hair above / below a threshold) and compares observed_cdf itself with the Spec's indicator "
         "1{x >= obs} exactly: a tolerance in the comparison threshold >= obs shows as a violation.",
    note="Trusted: Lean kernel; propext/Classical.choice/Quot.sound; SV.Fl (IEEE minus rounding/overflow/signed zero); py2lean; xarray "
         "interpolate_na / ffill / bfill / shift / integrate / sum(min_count) / broadcast modelled by documented meaning and compared, "
         "not verified. 'Integral' is Mathlib's Lebesgue interval integral: exact_eq_lebesgue (Props/C07Bridge.lean) for the exact method; the trapz "
         "method is stated as the trapezoid sum of the Brier decomposition. Proved for the integration step on the filled common grid; grid construction and "
         "filling are compared (model vs code) and checked against the knot-function Spec by the oracle, not proved. Known finding "
         "F18: a non-negative weight with a value above 1 is rejected (ValueError from fill_cdf's CDF guard) — Lean: "
         "weight_in_unit_accepted + weight_above_one_counterexample. Repaired during this work and kept as untagged regression "
         "cases: F3 (non-binary weights ignored by 'exact'), F3b (single weight-0 cell between weight-1 cells counted). "
         "Per-case scores are observed (preserve_dims = non-threshold dims); the mean over cases only as a relation. No infinities, "
         "no dask (F15 is C04's).",
    technique="Lean 4 theorems over a hand-written executable model and translator-regenerated kernels + differential correspondence + exact-integral Lean Spec oracle",
    design="6/C07")
RULE = ("random CDF arrays (2-6 thresholds, decreasing runs, plateaus, NaN, 0-2 extra dims in any order), observations on a threshold / "
        "between two / outside the grid / NaN, optional threshold weight (0/1 steps, general values in [0,1], NaN, own thresholds and dims), "
        "additional thresholds; every base case is run under all 4 fill x 2 integration x 2 propagate_nans combinations (components on; "
        "components off compared for the total); plus, every run, each numeric SCALE of thresholds / observations (1e5+k/4, 1e5+25k, 2^30+k, "
        "1e9+k/4, epoch+3600k, 2^40+k/8, 1+k*2^-20, k*2^-20, k*2^-30, -40+k/2, either sign, non-uniform gaps) with the observation on a "
        "threshold / mid-cell / a hair (unit/2^j, j<=10) above or below a threshold / outside the grid / NaN, checked for crps_cdf exact "
        "and trapz, the Brier decomposition and observed_cdf itself (H = 1{x>=obs}, exact comparison); "
        "distinct = distinct (base case, options); non-trivial = some non-NaN result and not malformed")

FILLS = ["linear", "step", "forward", "backward"]
INTEGS = ["exact", "trapz"]


# ----------------------------------------------------------------------------- generators
import zlib  # noqa: E402

# documented defaults of crps_cdf (docstring / signature at the pinned commit)
DOCUMENTED_DEFAULTS = {"additional_thresholds": None, "propagate_nans": True, "fcst_fill_method": "linear",
                       "threshold_weight_fill_method": "forward", "integration_method": "exact", "include_components": False}

def gen_weight(rng, c, kind=None, wthr_fn=None):
    """wthr_fn(n): the weight's own thresholds (default: the order-1 pool of cc.gen_thresholds)"""
    kind = kind or rng.choice(["none", "none", "step", "step", "general", "general", "nan", "gap"])
    if kind == "none":
        return None
    names = sorted(c["extra"])
    wd = sorted(rng.sample(names, rng.randint(0, len(names)))) if rng.random() < 0.6 else []
    size = 1
    for d in wd:
        size *= c["extra"][d]
    if rng.random() < 0.4:
        wthr = list(c["thr"])
    else:
        wthr = (wthr_fn or (lambda k: cc.gen_thresholds(rng, k)))(rng.randint(1, 5))
    n = len(wthr)
    rows = []
    for _ in range(size):
        if kind == "step":
            k = rng.randint(0, n)
            r = [0.0] * k + [1.0] * (n - k)
            if rng.random() < 0.4:
                r = [1.0 - v for v in r]
        elif kind == "gap":     # weight-1 regions separated by a short weight-0 region
            r = [1.0] * n
            if n >= 2:
                i = rng.randrange(n)
                r[i] = 0.0
                if rng.random() < 0.4 and i + 1 < n:
                    r[i + 1] = 0.0
        elif kind == "above-one":
            r = [rng.choice([0.0, 0.5, 1.0, 2.0, 3.0]) for _ in range(n)]
            r[rng.randrange(n)] = rng.choice([2.0, 1.5])
        else:
            r = [rng.choice([0.0, 0.25, 0.5, 0.5, 0.75, 1.0, 1.0]) for _ in range(n)]
            if kind == "nan":
                r[rng.randrange(n)] = cc.NAN
        rows.append(r)
    wo = wd + ["T"]
    rng.shuffle(wo)
    return {"thr": wthr, "dims": wd, "rows": rows, "order": wo}


def gen_base(rng, malformed_ok=False):
    c = cc.gen_array(rng, nmin=2, nmax=6, partial_nan=True)
    c.update(cc.gen_obs(rng, c))
    c["w"] = gen_weight(rng, c)
    c["fillW"] = rng.choice(["forward", "forward", "backward", "step", "linear"])
    if c["fillW"] == "linear" and c["w"] is not None:
        # keep the float interpolation of weights exact: weight knots on gaps that are powers of two
        st = rng.choice([0.0, 1.0, -1.0])
        c["w"]["thr"] = [st + g for g in itertools.accumulate([0] + [rng.choice([1, 2, 4]) for _ in range(len(c["w"]["thr"]) - 1)])]
    c["additional"] = rng.choice([None, None, [], [rng.randint(-6, 18) / 2 for _ in range(rng.randint(1, 3))]])
    c["malformed"] = None
    if malformed_ok:
        m = rng.choice(["fillF", "integ", "fcst-oob", "thr-order", "neg-weight", "fillW", "weight-order"])
        if m in ("neg-weight", "fillW", "weight-order") and c["w"] is None:
            c["w"] = gen_weight(rng, c, "general")
        if m == "fcst-oob":
            c["rows"][0][rng.randrange(len(c["thr"]))] = rng.choice([1.5, -0.25])
        if m == "thr-order":
            c["thr"] = list(reversed(c["thr"])) if rng.random() < 0.5 else [c["thr"][0]] * len(c["thr"])
        if m == "neg-weight":
            c["w"]["rows"][0][0] = -0.5
        if m == "weight-order" and len(c["w"]["thr"]) >= 2:
            c["w"]["thr"] = list(reversed(c["w"]["thr"]))
        elif m == "weight-order":
            m = "fillW"
        if m == "fillW":
            c["fillW"] = "nearest"
        c["malformed"] = m
    return c


def with_opts(base, fillF, integ, propagate, components=True):
    c = dict(base)
    c.update(fillF=fillF, integ=integ, propagate=propagate, components=components)
    if base.get("malformed") == "fillF":
        c["fillF"] = "cubic"
    if base.get("malformed") == "integ":
        c["integ"] = "simpson"
    return c


# ---- the numeric SCALE of thresholds and observations
# value = sign * (base + unit * k), k a small dyadic: every value is exactly representable in float64 (asserted), so the
# model value IS the float's value and "strictly between", "on the threshold", "just above" are facts, not roundings.
SCALES = {
    # name: (base, unit)
    "1e5+k/4": (Fraction(100000), Fraction(1, 4)),            # pressure in Pa; spacing / magnitude = 2.5e-6
    "1e5+25k": (Fraction(100000), Fraction(25)),              # pressure in Pa, coarse levels
    "2^30+k": (Fraction(2 ** 30), Fraction(1)),               # spacing / magnitude = 9.3e-10
    "1e9+k/4": (Fraction(10 ** 9), Fraction(1, 4)),
    "epoch+3600k": (Fraction(1700000000), Fraction(3600)),    # epoch seconds, hourly thresholds; 2.1e-6
    "2^40+k/8": (Fraction(2 ** 40), Fraction(1, 8)),
    "1+k*2^-20": (Fraction(1), Fraction(1, 2 ** 20)),         # order 1 with very fine spacing; 9.5e-7
    "k*2^-20": (Fraction(0), Fraction(1, 2 ** 20)),           # small magnitude
    "k*2^-30": (Fraction(0), Fraction(1, 2 ** 30)),           # spacing below any absolute tolerance of 1e-8 / 1e-9
    "-40+k/2": (Fraction(-40), Fraction(1, 2)),               # ordinary spacing, negative range
}
LARGE = ("1e5+k/4", "1e5+25k", "2^30+k", "1e9+k/4", "epoch+3600k", "2^40+k/8")
GAPS = [1, 1, 1, 2, 3, 4, 5, 8, 16, 64, 1000]


def exact_float(q):
    """the float of an exactly representable rational (None when q is not a float64)"""
    x = float(q)
    return x if Fraction(x) == q else None


def gen_scaled_base(rng, scale=None, near=None):
    """a base case on the numeric scale `scale`: non-uniform grid, the observation on a threshold / in the middle of a
    cell / VERY close above or below a threshold (unit/2^j, j up to 10: relative distance down to 1e-13, exactly
    representable) / outside the grid by a hair or by far / NaN; weight and additional thresholds on the same scale"""
    scale = scale or rng.choice(list(SCALES))
    base, unit = SCALES[scale]
    sign = -1 if rng.random() < 0.3 else 1

    def val(k):
        x = exact_float(sign * (base + unit * Fraction(k)))
        assert x is not None, (scale, k)
        return x

    def grid(n, k0=None):
        k0 = rng.randint(-8, 8) if k0 is None else k0
        uniform = rng.random() < 0.3
        g = rng.choice([1, 2, 4])
        return sorted(val(k) for k in itertools.accumulate([k0] + [g if uniform else rng.choice(GAPS) for _ in range(n - 1)]))

    n = rng.randint(2, 6)
    thr = grid(n)
    names = rng.sample(["a", "b"], rng.choice([0, 1, 1, 2]))
    extra = {d: rng.choice([1, 2, 3]) for d in sorted(names)}
    nrows = 1
    for v in extra.values():
        nrows *= v
    rows = []
    for _ in range(nrows):
        r = rng.random()
        rows.append([cc.NAN] * n if r < 0.06 else cc.gen_cdf(rng, n, nan_p=0.25) if r < 0.25 else cc.gen_cdf(rng, n))
    order = list(extra) + ["T"]
    rng.shuffle(order)
    c = {"thr": thr, "rows": rows, "extra": extra, "order": order, "oob": False, "scale": scale}
    # observations
    od = sorted(extra) if rng.random() < 0.75 else sorted(rng.sample(sorted(extra), rng.randint(0, len(extra))))
    size = 1
    for d in od:
        size *= extra[d]

    def off(t, direction, far=None):
        """t ± unit/2^j (a hair: j as large as float64 allows, at most 10) or t ± unit*far — exact, in rationals"""
        if far is not None:
            x = exact_float(Fraction(t) + direction * unit * far)
            assert x is not None, (scale, t, far)
            return x
        for j in sorted(rng.sample([1, 2, 4, 7, 10], 2), reverse=True) + [1, 0]:
            x = exact_float(Fraction(t) + direction * unit / 2 ** j)
            if x is not None:
                return x
        raise AssertionError((scale, t))

    vals = []
    for _ in range(size):
        kind = near or rng.choice(["on", "mid", "above", "above", "above", "below", "below", "out-hair", "out-far", "nan"])
        i = rng.randrange(len(thr))
        if kind == "mid" and len(thr) >= 2:
            i = rng.randrange(len(thr) - 1)
            v = exact_float((Fraction(thr[i]) + Fraction(thr[i + 1])) / 2)
            v = thr[i] if v is None else v
        elif kind in ("above", "mid"):
            v = off(thr[i], 1)            # strictly inside the cell above thr[i] (cells are at least one unit wide)
        elif kind == "below":
            v = off(thr[i], -1)
        elif kind == "out-hair":
            v = off(thr[0], -1) if rng.random() < 0.5 else off(thr[-1], 1)
        elif kind == "out-far":
            far = rng.choice([1, 3, 1000])
            v = off(thr[0], -1, far) if rng.random() < 0.5 else off(thr[-1], 1, far)
        elif kind == "on":
            v = thr[i]
        else:
            v = cc.NAN
        vals.append(v)
    od2 = list(od)
    rng.shuffle(od2)
    c.update(obs_dims=od, obs_vals=vals, obs_order=od2)
    c["w"] = gen_weight(rng, c, wthr_fn=lambda k: grid(k, rng.randint(-10, 20)))
    c["fillW"] = rng.choice(["forward", "forward", "backward", "step", "linear"])
    if c["fillW"] == "linear" and c["w"] is not None:
        # weight knots on gaps unit * 2^j (as in gen_base)
        c["w"]["thr"] = sorted(val(k) for k in itertools.accumulate([rng.randint(-4, 4)] + [rng.choice([1, 2, 4]) for _ in range(len(c["w"]["thr"]) - 1)]))
    c["additional"] = rng.choice([None, None, [], [val(rng.randint(-12, 40)) for _ in range(rng.randint(1, 3))]])
    c["malformed"] = None
    return c


def scale_tags(ctx, c):
    ctx.tag("scale:" + c["scale"])
    for o in c["obs_vals"]:
        if math.isnan(o):
            continue
        below = [t for t in c["thr"] if t < o]
        if o in c["thr"]:
            ctx.tag("scaled-obs:on-threshold")
        elif not below or o > max(c["thr"]):
            ctx.tag("scaled-obs:outside-grid")
        else:
            ctx.tag("scaled-obs:strictly-between")
        near = [t for t in c["thr"] if t != o and abs(t - o) <= 1e-5 * abs(o)]
        if near:
            ctx.tag("scaled-obs:threshold-within-1e-5-relative")
        if any(t != o and abs(t - o) <= 1e-8 for t in c["thr"]):
            ctx.tag("scaled-obs:threshold-within-1e-8-absolute")


# fixed instances of the class (independent of the seed): observation strictly between two thresholds at large magnitude
SCALED_FIXED = [
    dict(thr=[100000.0, 100500.0, 101000.0, 101325.0, 101500.0, 102000.0], rows=[[0.0, 0.125, 0.25, 0.375, 0.625, 1.0]], extra={},
         order=["T"], oob=False, scale="1e5+25k", obs_dims=[], obs_vals=[101325.875], obs_order=[], w=None, fillW="forward",
         additional=None, malformed=None),
    dict(thr=[1700000000.0 + 3600.0 * k for k in range(6)], rows=[[0.0, 0.125, 0.25, 0.5, 0.875, 1.0]], extra={}, order=["T"],
         oob=False, scale="epoch+3600k", obs_dims=[], obs_vals=[1700000000.0 + 3600.0 * 3 + 1800.0], obs_order=[], w=None,
         fillW="forward", additional=None, malformed=None),
    dict(thr=[2.0 ** 30 + k for k in (0, 1, 2, 4, 8)], rows=[[0.125, 0.25, 0.5, 0.75, 1.0]], extra={}, order=["T"], oob=False,
         scale="2^30+k", obs_dims=[], obs_vals=[2.0 ** 30 + 2.5], obs_order=[],
         w=dict(thr=[2.0 ** 30 + k for k in (0, 2, 4)], dims=[], rows=[[0.5, 1.0, 0.25]], order=["T"]), fillW="forward",
         additional=None, malformed=None),
]


def tol_close(c, impl, model, total=None):
    """core.close for the order-1 cases; for a case on a numeric SCALE the tolerance is relative to the value and to the
    row's exact total (all summands of the score are non-negative), 1e-9 as everywhere, so it neither loosens on small
    magnitudes nor tightens below float accuracy on large ones"""
    if "scale" not in c:
        return core.close(impl, model)
    if core.is_nan(model) or not isinstance(model, Fraction) or math.isnan(impl) or math.isinf(impl):
        return core.close(impl, model)
    t = abs(float(total)) if isinstance(total, Fraction) else 0.0
    span = max(c["thr"]) - min(c["thr"])
    return abs(impl - float(model)) <= 1e-9 * max(abs(float(model)), t) + 1e-13 * span


REGRESSION = [
    # F3 (repaired by c6c9dbb): constant weight 1/2 under exact integration must give half the CRPS
    dict(thr=[0.0, 1.0, 2.0, 3.0], rows=[[0.25, 0.5, 0.75, 1.0]], extra={}, order=["T"], oob=False, obs_dims=[], obs_vals=[0.0],
         obs_order=[], w=dict(thr=[0.0, 1.0, 2.0, 3.0], dims=[], rows=[[0.5, 0.5, 0.5, 0.5]], order=["T"]), fillW="forward",
         additional=None, malformed=None),
    # F3b (repaired by c6c9dbb): a single weight-0 cell between two weight-1 cells must not be counted
    dict(thr=[0.0, 1.0, 2.0, 3.0], rows=[[0.25, 0.5, 0.75, 1.0]], extra={}, order=["T"], oob=False, obs_dims=[], obs_vals=[0.0],
         obs_order=[], w=dict(thr=[0.0, 1.0, 2.0, 3.0], dims=[], rows=[[1.0, 0.0, 1.0, 1.0]], order=["T"]), fillW="forward",
         additional=None, malformed=None),
    dict(thr=[0.0, 1.0, 2.0, 3.0], rows=[[0.25, 0.5, 0.75, 1.0]], extra={}, order=["T"], oob=False, obs_dims=[], obs_vals=[1.5],
         obs_order=[], w=dict(thr=[0.0, 1.0, 2.0, 3.0], dims=[], rows=[[0.0, 1.0, 0.0, 0.0]], order=["T"]), fillW="forward",
         additional=None, malformed=None),
]


# witnesses of recorded findings (replayed on every run so that the KNOWN-FINDING line is stable)
KNOWN_WITNESSES = [
    # F18: a non-negative weight with a value above 1 is rejected (ValueError from fill_cdf's CDF bounds guard)
    dict(thr=[0.0, 1.0, 2.0, 3.0], rows=[[0.25, 0.5, 0.75, 1.0]], extra={}, order=["T"], oob=False, obs_dims=[], obs_vals=[0.0],
         obs_order=[], w=dict(thr=[0.0, 1.0, 2.0, 3.0], dims=[], rows=[[2.0, 2.0, 2.0, 2.0]], order=["T"]), fillW="forward",
         additional=None, malformed=None),
]


# ----------------------------------------------------------------------------- implementation
def mk_weight(c, tdim):
    w = c["w"]
    if w is None:
        return None
    shape = [c["extra"][d] for d in w["dims"]] + [len(w["thr"])]
    a = np.array(w["rows"], dtype=float).reshape(shape)
    coords = {d: list(range(10, 10 + c["extra"][d])) for d in w["dims"]}
    coords[tdim] = np.array(w["thr"], dtype=float)
    da = xr.DataArray(a, dims=w["dims"] + [tdim], coords=coords).transpose(*[tdim if d == "T" else d for d in w["order"]])
    return xr.DataArray(np.array(da.values, dtype=float, order="C", copy=True), dims=da.dims, coords={k: coords[k] for k in da.dims})


def weight_per_row(c):
    w = c["w"]
    return cc.broadcast_rows(c, w["dims"], w["rows"])


def run_crps(c, reduce_all=False):
    """per-case [{'total','under','over'}] (or total only), or {'err': class}"""
    from scores.probability import crps_cdf
    tdim = cc.fresh("thre", "shold")
    try:
        with np.errstate(all="ignore"):
            kw = {}
            if reduce_all:
                kw["reduce_dims"] = None
            else:
                kw["preserve_dims"] = [cc.fresh(d, "") for d in sorted(c["extra"])]
            opts = dict(additional_thresholds=c["additional"], propagate_nans=c["propagate"], fcst_fill_method=c["fillF"],
                        threshold_weight_fill_method=c["fillW"], integration_method=c["integ"], include_components=c["components"])
            # a keyword whose value is the DOCUMENTED default is left out in half of the cases (deterministically per case):
            # the defaults are part of the interface
            if zlib.crc32(repr(sorted((k, str(v)) for k, v in c.items())).encode()) % 2 == 0:
                for k, dv in DOCUMENTED_DEFAULTS.items():
                    if k in opts and opts[k] == dv and type(opts[k]) is type(dv):
                        del opts[k]
            fc_in = cc.mk(c, tdim)
            if zlib.crc32(repr(sorted((k, str(v)) for k, v in c.items())).encode()) % 40 == 1:
                fc_in = fc_in.chunk()        # a dask-backed forecast (one chunk per dimension): same values, lazy container
            ds = crps_cdf(fc_in, cc.mk_obs(c), threshold_dim=tdim, threshold_weight=mk_weight(c, tdim), **opts, **kw)
            ds = ds.compute()
            names = {"total": "total", "under": "underforecast_penalty", "over": "overforecast_penalty"}
            if not c["components"]:
                if set(ds.data_vars) != {"total"}:
                    return {"err": "Other:unexpected-variables"}
                names = {"total": "total"}
            elif set(ds.data_vars) != set(names.values()):
                return {"err": "Other:unexpected-variables"}
            if reduce_all:
                return {k: float(ds[v].values) for k, v in names.items()}
            cols = {k: cc.scalars_of(ds[v], c) for k, v in names.items()}
            n = len(cols["total"])
            return [{k: float(cols[k][i]) for k in cols} for i in range(n)]
    except Exception as ex:  # noqa: BLE001
        return {"err": core.exc_class(ex)}


def run_brier(c, reduce_all=False):
    from scores.probability import crps_cdf_brier_decomposition
    tdim = cc.fresh("thre", "shold")
    try:
        with np.errstate(all="ignore"):
            kw = {"reduce_dims": None} if reduce_all else {"preserve_dims": [cc.fresh(d, "") for d in sorted(c["extra"])]}
            ds = crps_cdf_brier_decomposition(cc.mk(c, tdim), cc.mk_obs(c), threshold_dim=tdim,
                                              additional_thresholds=c["additional"], fcst_fill_method=c["fillF"], **kw)
            names = {"total": "total_penalty", "under": "underforecast_penalty", "over": "overforecast_penalty"}
            out = {"grid": [float(v) for v in ds[tdim].values]}
            for k, v in names.items():
                if reduce_all:
                    out["mean_" + k] = [float(x) for x in ds[v].values]
                else:
                    out[k] = cc.rows_of(ds[v], c, tdim)
            return out
    except Exception as ex:  # noqa: BLE001
        return {"err": core.exc_class(ex)}


def args_of(c):
    S = core.fl_str
    L = lambda xs: [S(x) for x in xs]
    a = {"thr": L(c["thr"]), "rows": [L(r) for r in c["rows"]], "obs": L(cc.obs_per_row(c)),
         "additional": L(c["additional"] or []), "propagate": c.get("propagate", True), "fillF": c["fillF"],
         "fillW": c["fillW"], "integ": c.get("integ", "exact")}
    if c["w"] is not None:
        a["w"] = {"thr": L(c["w"]["thr"]), "rows": [L(r) for r in weight_per_row(c)]}
    return a


def same(impl, model):
    if isinstance(model, dict) and "fail" in model:
        return False
    if isinstance(impl, dict) and "err" in impl:
        return isinstance(model, dict) and model.get("err") == impl["err"]
    if isinstance(model, dict) and "err" in model:
        return False
    if isinstance(model, dict):
        return all(k in model and same(impl[k], model[k]) for k in impl)
    if isinstance(model, list):
        return isinstance(impl, list) and len(impl) == len(model) and all(same(a, b) for a, b in zip(impl, model))
    return core.close(impl, model)


def weight_class(c, spec_rows):
    """tags that describe the weight of a case as the property sees it (filled on the common grid)"""
    if c["w"] is None:
        return "none"
    vals = []
    for r in spec_rows:
        vals += [core.parse_fl(x) for x in r["w"][:-1]]
    if any(v > 1 for r in c["w"]["rows"] for v in r if not math.isnan(v)):
        return "above-one"
    if any(core.is_nan(v) for v in vals):
        return "nan"
    if all(v in (0, 1) for v in vals):
        return "binary"
    return "non-binary"


def base_tags(ctx, c):
    if c.get("malformed"):
        ctx.tag("malformed:" + c["malformed"])
        return
    thr = c["thr"]
    for o in c["obs_vals"]:
        if math.isnan(o):
            ctx.tag("obs:nan")
        elif o in thr:
            ctx.tag("obs:on-threshold")
        elif o < min(thr) or o > max(thr):
            ctx.tag("obs:outside-grid")
        else:
            ctx.tag("obs:between-thresholds")
    ctx.tag("weight:" + ("none" if c["w"] is None else "given"))
    if c["additional"]:
        ctx.tag("additional-thresholds")
    if any(math.isnan(v) for r in c["rows"] for v in r):
        ctx.tag("fcst-has-nan")
    if len(c["extra"]):
        ctx.tag("extra-dims:%d" % len(c["extra"]))
    if c["order"].index("T") != len(c["order"]) - 1:
        ctx.tag("threshold-dim-not-last")


def combos(ctx, rng, base):
    """all 4 x 2 x 2 option combinations (thorough: every base; quick: every base, components on)"""
    for fillF, integ, prop in itertools.product(FILLS, INTEGS, [True, False]):
        yield with_opts(base, fillF, integ, prop, True)


# ----------------------------------------------------------------------------- tie X
def correspondence(ctx):
    rng = ctx.rng
    cases = []
    for b in REGRESSION:
        cases += list(combos(ctx, rng, b))
    for _ in range(ctx.n(26, 520)):
        b = gen_base(rng, malformed_ok=rng.random() < 0.18)
        base_tags(ctx, b)
        cs = list(combos(ctx, rng, b))
        if b.get("malformed"):
            cs = rng.sample(cs, 3)
        cases += cs
        if rng.random() < 0.3:
            cases.append(with_opts(b, rng.choice(FILLS), rng.choice(INTEGS), rng.random() < 0.5, False))
    for sc in rng.sample(list(SCALES), ctx.n(4, 10)) + ([rng.choice(list(SCALES)) for _ in range(100)] if ctx.thorough else []):
        b = gen_scaled_base(rng, sc)
        cases += rng.sample(list(combos(ctx, rng, b)), 3)
    models = core.run_driver("C07", [{"op": "c07.crps", "args": args_of(c)} for c in cases])
    for c, m in zip(cases, models):
        batch = "impl-vs-model:crps_cdf:" + c["integ"]
        impl = run_crps(c)
        nt = not c.get("malformed") and isinstance(impl, list) and any(not math.isnan(r["total"]) for r in impl)
        ctx.case(batch, c, nontrivial=nt)
        ctx.tag(f"opts:{c['fillF']}/{c['integ']}/propagate={c['propagate']}/components={c['components']}")
        if isinstance(impl, dict) and "err" in impl:
            ctx.tag("raises:" + impl["err"])
        if not same(impl, m):
            ctx.fail(batch, "correspondence", "crps_cdf", "value", c, observed=impl, expected=m,
                     tags={"integration_method": c["integ"], "fill": c["fillF"]})
    # Brier decomposition
    bcases = []
    for _ in range(ctx.n(60, 1500)):
        b = gen_base(rng, malformed_ok=False)
        b["w"] = None
        bcases.append(with_opts(b, rng.choice(FILLS), "trapz", True, True))
    models = core.run_driver("C07", [{"op": "c07.brier", "args": args_of(c)} for c in bcases])
    for c, m in zip(bcases, models):
        impl = run_brier(c)
        ctx.case("impl-vs-model:brier_decomposition", c, nontrivial=isinstance(impl, dict) and "err" not in impl)
        ok = same(impl, m)
        if ok and rng.random() < 0.3:
            red = run_brier(c, reduce_all=True)
            ok = same(red, m)
        if not ok:
            ctx.fail("impl-vs-model:brier_decomposition", "correspondence", "crps_cdf_brier_decomposition", "value", c,
                     observed=impl, expected=m, tags={"fill": c["fillF"]})
    # crps_step_threshold_weight
    from scores.probability.crps_impl import crps_step_threshold_weight
    scs = []
    for _ in range(ctx.n(40, 800)):
        n = rng.randint(1, 4)
        pts = [rng.choice([cc.NAN, rng.randint(-4, 12) / 2, rng.randint(-2, 6) * 1.0]) for _ in range(n)]
        tv = None if rng.random() < 0.3 else [rng.randint(-4, 12) / 2 for _ in range(rng.randint(0, 4))]
        scs.append({"points": pts, "tv": tv, "include": rng.random() < 0.6, "prec": rng.choice([0, 0, 0.5, 1, 2]), "upper": rng.random() < 0.5})
    models = core.run_driver("C07", [{"op": "c07.stepweight", "args": {"points": [core.fl_str(x) for x in c["points"]],
                                                                       "tv": None if c["tv"] is None else [core.fl_str(x) for x in c["tv"]],
                                                                       "include": c["include"], "prec": core.fl_str(c["prec"]),
                                                                       "upper": c["upper"]}} for c in scs])
    for c, m in zip(scs, models):
        ctx.case("impl-vs-model:step_threshold_weight", c, nontrivial=any(not math.isnan(p) for p in c["points"]))
        tdim = cc.fresh("thre", "shold")
        try:
            r = crps_step_threshold_weight(xr.DataArray(np.array(c["points"], dtype=float), dims=["p"]), tdim, threshold_values=c["tv"],
                                           steppoints_in_thresholds=c["include"], steppoint_precision=c["prec"], weight_upper=c["upper"])
            r = r.transpose("p", tdim)
            g = [float(v) for v in r[tdim].values]
            impl = {"grid": g, "rows": np.asarray(r.values, dtype=float).reshape(len(c["points"]), len(g)).tolist() if g else [[] for _ in c["points"]]}
        except Exception as ex:  # noqa: BLE001
            impl = {"err": core.exc_class(ex)}
        if not same(impl, m):
            ctx.fail("impl-vs-model:step_threshold_weight", "correspondence", "crps_step_threshold_weight", "value", c,
                     observed=impl, expected=m)


# ----------------------------------------------------------------------------- the property itself
def expected_parts(spec_row):
    p = spec_row["parts"]
    if p == "nan":
        return {"total": cc.NAN, "under": cc.NAN, "over": cc.NAN}
    return {k: core.parse_fl(p[k]) for k in ("total", "under", "over")}


def check_crps(ctx, c, spec, batch):
    """C07 on one (case, options): the implementation against the exact integral (Lean Spec) and the relations"""
    n0 = len(ctx.failures)
    impl = run_crps(c)
    wclass = weight_class(c, spec)
    tags = {"integration_method": c["integ"], "fill": c["fillF"], "weight_values": wclass, "propagate_nans": c["propagate"]}

    def bad(sig, obs=None, exp=None, thm=None, extra=None):
        ctx.fail(batch, "property", "crps_cdf", sig, c, observed=obs, expected=exp, tags=dict(tags, **(extra or {})), theorem=thm)

    if isinstance(impl, dict) and "err" in impl:
        if wclass == "above-one" and impl["err"] == "ValueError":
            # candidate finding F18 (notes/C07.md): a non-negative weight with a value above 1 is rejected
            bad("weight-above-one-rejected", impl["err"], [expected_parts(s) for s in spec], None, {"defect": "F18"})
        else:
            bad("unexpected-exception", impl["err"], [expected_parts(s) for s in spec])
        return len(ctx.failures) - n0
    keys = ("total", "under", "over") if c["components"] else ("total",)
    for i, (r, s) in enumerate(zip(impl, spec)):
        exp = expected_parts(s)
        for k in keys:
            if not tol_close(c, r[k], exp[k], exp["total"]):
                sig = {"exact": "differs-from-exact-weighted-integral", "trapz": "differs-from-trapezoid-sum"}[c["integ"]]
                bad(sig, {"row": i, k: r[k]}, {k: exp[k]}, "exact_eq_spec" if c["integ"] == "exact" else "trapz_eq_spec",
                    dict({"component": k}, **({"scale": c["scale"]} if "scale" in c else {})))
                break
        if c["components"] and not math.isnan(r["total"]):
            if not core.close_ff(r["under"] + r["over"], r["total"]):
                bad("under+over!=total", r, None, "under_add_over")
            if r["under"] < -1e-12 or r["over"] < -1e-12:
                bad("negative-component", r, None, "under_nonneg")
        if c["propagate"] and any(math.isnan(v) for v in c["rows"][i]) and not math.isnan(r["total"]):
            bad("nan-ordinate-not-propagated", r, "nan", "nan_case_local")
    return len(ctx.failures) - n0


def check_trapz_vs_brier(ctx, c, batch):
    """trapezoid method (w = 1) = trapezoid integral of the Brier decomposition over the same thresholds"""
    n0 = len(ctx.failures)
    c = dict(c, w=None, integ="trapz", propagate=True, components=True)
    impl = run_crps(c)
    br = run_brier(c)
    if (isinstance(impl, dict) and "err" in impl) or "err" in br:
        ctx.fail(batch, "property", "crps_cdf", "unexpected-exception", c, observed=[impl, br], tags={"relation": "trapz-vs-brier"})
        return 1
    g = np.array(br["grid"])
    for i, r in enumerate(impl):
        for k in ("total", "under", "over"):
            y = np.array(br[k][i], dtype=float)
            want = float(np.sum((g[1:] - g[:-1]) * (y[1:] + y[:-1]) / 2)) if not np.isnan(y).any() else cc.NAN
            if not core.close_ff(r[k], want):
                ctx.fail(batch, "property", "crps_cdf", "trapz-differs-from-trapezoid-of-brier-decomposition", c,
                         observed={"row": i, k: r[k]}, expected=want, tags={"relation": "trapz-vs-brier", "component": k},
                         theorem="trapz_eq_integral_of_brier")
                break
    return len(ctx.failures) - n0


def check_complement(ctx, c, batch):
    """weights w and 1 - w (which sum to one) give scores that sum to the unweighted score"""
    n0 = len(ctx.failures)
    if c["w"] is None or c["fillW"] == "step" or any(math.isnan(v) or v > 1 for r in c["w"]["rows"] for v in r) \
            or len(c["w"]["thr"]) < 2:
        return 0
    c = dict(c, components=True)
    c2 = dict(c, w=dict(c["w"], rows=[[1.0 - v for v in r] for r in c["w"]["rows"]]))
    # the unweighted score over the same span: the weight's thresholds are passed as additional thresholds
    c0 = dict(c, w=None, additional=list(c["additional"] or []) + list(c["w"]["thr"]))
    a, b, u = run_crps(c), run_crps(c2), run_crps(c0)
    if any(isinstance(x, dict) for x in (a, b, u)):
        ctx.fail(batch, "property", "crps_cdf", "unexpected-exception", c, observed=[a, b, u], tags={"relation": "complementary-weights"})
        return 1
    for i in range(len(u)):
        for k in ("total", "under", "over"):
            if not core.close_ff(a[i][k] + b[i][k], u[i][k]):
                ctx.fail(batch, "property", "crps_cdf", "complementary-weights-do-not-sum-to-unweighted", c,
                         observed={"row": i, "w": a[i][k], "1-w": b[i][k]}, expected=u[i][k],
                         tags={"relation": "complementary-weights", "integration_method": c["integ"], "component": k},
                         theorem="complementary_weights")
                return len(ctx.failures) - n0
    return 0


def check_mean(ctx, c, batch):
    """reduce_dims=None is the NaN-skipping mean of the per-case scores"""
    per = run_crps(c)
    red = run_crps(c, reduce_all=True)
    if isinstance(per, dict) or "err" in red:
        return 0
    for k in red:
        v = [r[k] for r in per if not math.isnan(r[k])]
        want = sum(v) / len(v) if v else cc.NAN
        if not core.close_ff(red[k], want):
            ctx.fail(batch, "property", "crps_cdf", "mean-over-cases-differs", c, observed=red[k], expected=want, tags={"relation": "mean"})
            return 1
    return 0


def check_brier(ctx, c, spec, batch):
    """per-threshold Brier decomposition: (F − H)² split by H, on the common grid"""
    n0 = len(ctx.failures)
    br = run_brier(c)
    if "err" in br:
        ctx.fail(batch, "property", "crps_cdf_brier_decomposition", "unexpected-exception", c, observed=br["err"])
        return 1
    obs = cc.obs_per_row(c)
    for i, s in enumerate(spec):
        grid = [core.parse_fl(x) for x in s["grid"]]
        if not same(br["grid"], s["grid"]) or ("scale" in c and [Fraction(x) for x in br["grid"]] != grid):
            ctx.fail(batch, "property", "crps_cdf_brier_decomposition", "thresholds-not-the-union", c, observed=br["grid"], expected=s["grid"])
            break
        f = [core.parse_fl(x) for x in s["f"]]
        for k, (x, fk) in enumerate(zip(grid, f)):
            if core.is_nan(fk) or math.isnan(obs[i]):
                want = (cc.NAN, cc.NAN, cc.NAN)
            else:
                h = 1 if x >= Fraction(obs[i]) else 0
                b = (fk - h) ** 2
                want = (b, b if h == 0 else 0, b if h == 1 else 0)
            got = (br["total"][i][k], br["under"][i][k], br["over"][i][k])
            if not all(core.close(a, w) for a, w in zip(got, want)):
                ctx.fail(batch, "property", "crps_cdf_brier_decomposition", "differs-from-(F-H)^2-split-by-H", c,
                         observed={"row": i, "k": k, "got": got}, expected=want, theorem="brier_row_spec")
                return len(ctx.failures) - n0
    return len(ctx.failures) - n0


def run_observed(c, include):
    """observed_cdf of the case's observations against the forecast thresholds: {'grid', 'rows'} per observation value"""
    from scores.processing.cdf import observed_cdf
    tdim = cc.fresh("thre", "shold")
    try:
        with np.errstate(all="ignore"):
            da = observed_cdf(cc.mk_obs(c), tdim, threshold_values=list(c["thr"]), include_obs_in_thresholds=include, precision=0)
        od = list(c["obs_dims"])
        if set(da.dims) != set(od + [tdim]):
            return {"err": "Other:unexpected-dims"}
        n = da.sizes[tdim]
        return {"grid": [float(v) for v in da[tdim].values],
                "rows": np.asarray(da.transpose(*od, tdim).values, dtype=float).reshape(-1, n).tolist()}
    except Exception as ex:  # noqa: BLE001
        return {"err": core.exc_class(ex)}


def heaviside_args(c, include):
    return {"thr": [core.fl_str(x) for x in c["thr"]], "obs": [core.fl_str(x) for x in c["obs_vals"]], "include": include}


def check_observed(ctx, c, include, spec, batch):
    """observed_cdf itself: thresholds = exactly the union, value = H(x) = 1{x >= obs} of the Spec (exact, no tolerance:
    every value is 0, 1 or NaN and every threshold is one of the inputs)"""
    n0 = len(ctx.failures)
    tags = {"include_obs_in_thresholds": include}
    if "scale" in c:
        tags["scale"] = c["scale"]
    if all(math.isnan(v) for v in c["obs_vals"]) and not c["thr"]:
        return 0
    got = run_observed(c, include)
    if "err" in got:
        ctx.fail(batch, "property", "observed_cdf", "unexpected-exception", c, observed=got["err"], tags=tags)
        return 1
    grid = [core.parse_fl(x) for x in spec["grid"]]
    if [Fraction(x) for x in got["grid"]] != grid:
        ctx.fail(batch, "property", "observed_cdf", "thresholds-not-the-union", c, observed=got["grid"], expected=spec["grid"], tags=tags)
        return 1
    for i, (r, e) in enumerate(zip(got["rows"], spec["rows"])):
        want = [core.parse_fl(x) for x in e]
        ok = len(r) == len(want) and all((math.isnan(a) and core.is_nan(b)) or (not core.is_nan(b) and a == b) for a, b in zip(r, want))
        if not ok:
            ctx.fail(batch, "property", "observed_cdf", "differs-from-indicator-threshold>=obs", c,
                     observed={"obs": c["obs_vals"][i], "grid": got["grid"], "row": r}, expected=e, tags=tags, theorem="brier_row_spec")
            return len(ctx.failures) - n0
    return len(ctx.failures) - n0


def oracle(ctx, boost):
    rng = ctx.rng
    mult = 5 if boost else 1
    bases = list(REGRESSION) + [dict(b) for b in KNOWN_WITNESSES]
    for _ in range(ctx.n(26, 460) * mult):
        b = gen_base(rng)
        if rng.random() < 0.04:
            b["w"] = gen_weight(rng, b, "above-one")
        bases.append(b)
    cases = []
    for b in bases:
        cs = list(combos(ctx, rng, b))
        cases += cs
        cases.append(with_opts(b, rng.choice(FILLS), rng.choice(INTEGS), rng.random() < 0.5, False))
    n_order1 = len(cases)
    # the numeric scale of thresholds / observations: every scale once per run (large magnitudes twice), fixed instances
    scaled = [dict(b) for b in SCALED_FIXED]
    for sc in list(SCALES) + rng.sample(LARGE, 3) + [rng.choice(list(SCALES)) for _ in range(ctx.n(0, 200) * mult + (20 if boost else 0))]:
        b = gen_scaled_base(rng, sc, near="above" if (sc in LARGE and rng.random() < 0.5) else None)
        if sc in LARGE and rng.random() < 0.5:
            b["w"] = None
        scaled.append(b)
    for b in scaled:
        scale_tags(ctx, b)
        cs = list(combos(ctx, rng, b))
        # quick: both integration methods under two fill methods each (propagate_nans at random); thorough / boost: all 16
        if ctx.thorough or boost:
            cases += cs
        else:
            for integ in INTEGS:
                for fillF in rng.sample(FILLS, 2):
                    cases.append(with_opts(b, fillF, integ, rng.random() < 0.5, True))
    specs = core.run_driver("C07", [{"op": "c07.spec", "args": args_of(c)} for c in cases])
    for c, s in zip(cases, specs):
        batch = "property:crps_cdf:" + c["integ"]
        ctx.case(batch, c, nontrivial=any(r["parts"] != "nan" for r in s))
        ctx.tag("weight-class:" + weight_class(c, s))
        check_crps(ctx, c, s, batch)
    # relations and the Brier decomposition on a sample of (base, options)
    order1 = list(zip(cases[:n_order1], specs[:n_order1]))
    rel = rng.sample(order1, min(len(order1), ctx.n(120, 2000) * mult)) + order1[:48]
    sc_cs = list(zip(cases[n_order1:], specs[n_order1:]))
    rel += rng.sample(sc_cs, min(len(sc_cs), ctx.n(10, 600) * mult))
    for c, s in rel:
        ctx.case("property:relations", c, nontrivial=True)
        check_complement(ctx, c, "property:relations")
        r = rng.random()
        if r < 0.35:
            check_trapz_vs_brier(ctx, c, "property:relations")
        elif r < 0.55:
            check_mean(ctx, c, "property:relations")
        elif r < 0.8 and c["propagate"]:
            check_brier(ctx, dict(c, w=None), s, "property:brier_decomposition") if c["w"] is None else None
    # Brier decomposition and observed_cdf itself on every scaled base (and observed_cdf on a sample of the order-1 bases)
    bs = [with_opts(dict(b, w=None), rng.choice(FILLS), "trapz", True, True) for b in scaled]
    bspecs = core.run_driver("C07", [{"op": "c07.spec", "args": args_of(c)} for c in bs])
    for c, s in zip(bs, bspecs):
        ctx.case("property:brier_decomposition", c, nontrivial=True)
        check_brier(ctx, c, s, "property:brier_decomposition")
    ob = [(b, rng.random() < 0.6) for b in scaled + rng.sample(bases, min(len(bases), ctx.n(8, 200)))
          if not all(math.isnan(v) for v in b["obs_vals"])]
    ospecs = core.run_driver("C07", [{"op": "c07.heaviside", "args": heaviside_args(b, inc)} for b, inc in ob])
    for (b, inc), s in zip(ob, ospecs):
        ctx.case("property:observed_cdf", dict(b, include=inc), nontrivial=True)
        check_observed(ctx, b, inc, s, "property:observed_cdf")


def replay(ctx, payload):
    c = cc.decode_case(payload["case"])
    ctx2 = core.Ctx("C07", "quick", 0)
    site, sig = payload.get("site"), payload.get("signature")
    if payload.get("kind") == "correspondence":
        if site == "crps_cdf":
            m = core.run_driver("C07", [{"op": "c07.crps", "args": args_of(c)}])[0]
            return not same(run_crps(c), m)
        if site == "crps_cdf_brier_decomposition":
            m = core.run_driver("C07", [{"op": "c07.brier", "args": args_of(c)}])[0]
            return not same(run_brier(c), m)
        return True
    rel = (payload.get("tags") or {}).get("relation")
    if rel == "trapz-vs-brier":
        return check_trapz_vs_brier(ctx2, c, "replay") > 0
    if rel == "complementary-weights":
        return check_complement(ctx2, c, "replay") > 0
    if rel == "mean":
        return check_mean(ctx2, c, "replay") > 0
    if site == "observed_cdf":
        inc = bool((payload.get("tags") or {}).get("include_obs_in_thresholds"))
        s = core.run_driver("C07", [{"op": "c07.heaviside", "args": heaviside_args(c, inc)}])[0]
        return check_observed(ctx2, c, inc, s, "replay") > 0
    s = core.run_driver("C07", [{"op": "c07.spec", "args": args_of(c)}])[0]
    if site == "crps_cdf_brier_decomposition":
        return check_brier(ctx2, c, s, "replay") > 0
    return check_crps(ctx2, c, s, "replay") > 0
