"""C07 — CRPS for CDF forecasts equals the exact threshold-weighted integral."""
from __future__ import annotations

import itertools
import math
from fractions import Fraction

import numpy as np
import xarray as xr

from sv import core
from sv import cdf_c17c07 as cc

PROPERTY = "C07"
GEN = ["Cdf"]
PROPS = ["ScoresVerif/Props/C07.lean", "ScoresVerif/Props/C07Refine.lean", "ScoresVerif/Props/C07Bridge.lean",
         "ScoresVerif/Props/C07Cases.lean", "ScoresVerif/Props/C07BridgeTrapz.lean"]
AUDIT_FILES = ["ScoresVerif/Lemmas/Bridge.lean", "ScoresVerif/Lemmas/C07Bridge.lean", "ScoresVerif/Lemmas/C07PipelineCases.lean",
               "ScoresVerif/Lemmas/C07PipelineCasesW.lean", "ScoresVerif/Lemmas/C07BridgeTrapz.lean"]
DRIVER_DEPS = ["ScoresVerif.Driver.C07"]
LEVEL = "proof"
TRUSTED = ["xarray interpolate_na / ffill / bfill / shift / integrate / sum(min_count) / broadcast are modelled by their documented "
           "meaning (Model/Cdf.lean, Model/CrpsCdf.lean) and tied to the library by the correspondence check only",
           "(no longer trusted) the exact method's cell sums equal the Lebesgue integral of w(x)(F(x)-H(x))^2 with Mathlib's "
           "intervalIntegral: Props/C07Bridge.lean exact_eq_lebesgue (total, under, over), using Mathlib's fundamental theorem of calculus"]
ASSUMPTIONS = ["ordinates and weights are dyadic (k/8), thresholds / observations small integers or halves: float arithmetic is exact "
               "or compared to 1e-9", "thresholds and observations are finite or NaN (no infinities)",
               "the score is observed per forecast case (preserve_dims = all non-threshold dims); the mean over cases is checked as a relation"]
MANIFEST = dict(
    level="proof",
    text="Kernel-checked Lean theorems about an executable model of crps_cdf_exact / crps_cdf_trapz / crps_cdf_brier_decomposition "
         "(grids of any length): the code's piece formula equals Delta(p^2+pq+q^2)/3 = Simpson of the squared linear piece (exact for "
         "quadratics: equals the antiderivative difference); for EVERY right-continuous step weight and every position of the "
         "observation on the grid, total / underforecast / overforecast of the exact method equal the weighted cell sums "
         "Sum w_cell * Simpson((lin - H)^2) (full strength after the repair of F3/F3b, commit c6c9dbb); under + over = total and both "
         ">= 0 for non-negative weights; the trapezoid method equals the trapezoid sums of the sampled integrand and, for w = 1, the "
         "trapezoid integral of the Brier decomposition (total and both components); weights summing to one give scores summing to the "
         "unweighted score (exact and trapz); any NaN in a case makes exactly that case NaN. The pointwise kernels are regenerated from "
         "the source by the AST translator on every run; the whole pipeline (grid = union of fcst / all obs / weight / additional "
         "thresholds, 4 fill methods for forecast and weight, propagate_nans, components, guards) is tied by a differential "
         "correspondence over all 4 x 2 x 2 option combinations per case, and an independent oracle compares the implementation with "
         "the exact integral computed by the Lean Spec from the ORIGINAL knots (fill as a function of the knots), plus the relations.",
    note="Trusted: Lean kernel; propext/Classical.choice/Quot.sound; SV.Fl (IEEE minus rounding/overflow/signed zero); py2lean; xarray "
         "interpolate_na / ffill / bfill / shift / integrate / sum(min_count) / broadcast modelled by documented meaning and compared, "
         "not verified. 'Integral' is Mathlib's Lebesgue interval integral: exact_eq_lebesgue (Props/C07Bridge.lean) for the exact method; the trapz "
         "method is stated as the trapezoid sum of the Brier decomposition. Proved for the integration step on the filled common grid; grid construction and "
         "filling are compared (model vs code) and checked against the knot-function Spec by the oracle, not proved. Known finding "
         "F18: a non-negative weight with a value above 1 is rejected (ValueError from fill_cdf's CDF guard) — Lean: "
         "weight_in_unit_accepted + weight_above_one_counterexample. Repaired during this work and kept as untagged regression "
         "cases: F3 (non-binary weights ignored by 'exact'), F3b (single weight-0 cell between weight-1 cells counted). "
         "Per-case scores are observed (preserve_dims = non-threshold dims); the mean over cases only as a relation. No infinities, "
         "no dask (F15 is C04's).",
    technique="Lean 4 theorems over a hand-written executable model and translator-regenerated kernels + differential correspondence + exact-integral Lean Spec oracle",
    design="6/C07")
RULE = ("random CDF arrays (2-6 thresholds, decreasing runs, plateaus, NaN, 0-2 extra dims in any order), observations on a threshold / "
        "between two / outside the grid / NaN, optional threshold weight (0/1 steps, general values in [0,1], NaN, own thresholds and dims), "
        "additional thresholds; every base case is run under all 4 fill x 2 integration x 2 propagate_nans combinations (components on; "
        "components off compared for the total); distinct = distinct (base case, options); non-trivial = some non-NaN result and not malformed")

FILLS = ["linear", "step", "forward", "backward"]
INTEGS = ["exact", "trapz"]


# ----------------------------------------------------------------------------- generators
def gen_weight(rng, c, kind=None):
    kind = kind or rng.choice(["none", "none", "step", "step", "general", "general", "nan", "gap"])
    if kind == "none":
        return None
    names = sorted(c["extra"])
    wd = sorted(rng.sample(names, rng.randint(0, len(names)))) if rng.random() < 0.6 else []
    size = 1
    for d in wd:
        size *= c["extra"][d]
    if rng.random() < 0.4:
        wthr = list(c["thr"])
    else:
        wthr = cc.gen_thresholds(rng, rng.randint(1, 5))
    n = len(wthr)
    rows = []
    for _ in range(size):
        if kind == "step":
            k = rng.randint(0, n)
            r = [0.0] * k + [1.0] * (n - k)
            if rng.random() < 0.4:
                r = [1.0 - v for v in r]
        elif kind == "gap":     # weight-1 regions separated by a short weight-0 region
            r = [1.0] * n
            if n >= 2:
                i = rng.randrange(n)
                r[i] = 0.0
                if rng.random() < 0.4 and i + 1 < n:
                    r[i + 1] = 0.0
        elif kind == "above-one":
            r = [rng.choice([0.0, 0.5, 1.0, 2.0, 3.0]) for _ in range(n)]
            r[rng.randrange(n)] = rng.choice([2.0, 1.5])
        else:
            r = [rng.choice([0.0, 0.25, 0.5, 0.5, 0.75, 1.0, 1.0]) for _ in range(n)]
            if kind == "nan":
                r[rng.randrange(n)] = cc.NAN
        rows.append(r)
    wo = wd + ["T"]
    rng.shuffle(wo)
    return {"thr": wthr, "dims": wd, "rows": rows, "order": wo}


def gen_base(rng, malformed_ok=False):
    c = cc.gen_array(rng, nmin=2, nmax=6, partial_nan=True)
    c.update(cc.gen_obs(rng, c))
    c["w"] = gen_weight(rng, c)
    c["fillW"] = rng.choice(["forward", "forward", "backward", "step", "linear"])
    if c["fillW"] == "linear" and c["w"] is not None:
        # keep the float interpolation of weights exact: weight knots on gaps that are powers of two
        st = rng.choice([0.0, 1.0, -1.0])
        c["w"]["thr"] = [st + g for g in itertools.accumulate([0] + [rng.choice([1, 2, 4]) for _ in range(len(c["w"]["thr"]) - 1)])]
    c["additional"] = rng.choice([None, None, [], [rng.randint(-6, 18) / 2 for _ in range(rng.randint(1, 3))]])
    c["malformed"] = None
    if malformed_ok:
        m = rng.choice(["fillF", "integ", "fcst-oob", "thr-order", "neg-weight", "fillW", "weight-order"])
        if m in ("neg-weight", "fillW", "weight-order") and c["w"] is None:
            c["w"] = gen_weight(rng, c, "general")
        if m == "fcst-oob":
            c["rows"][0][rng.randrange(len(c["thr"]))] = rng.choice([1.5, -0.25])
        if m == "thr-order":
            c["thr"] = list(reversed(c["thr"])) if rng.random() < 0.5 else [c["thr"][0]] * len(c["thr"])
        if m == "neg-weight":
            c["w"]["rows"][0][0] = -0.5
        if m == "weight-order" and len(c["w"]["thr"]) >= 2:
            c["w"]["thr"] = list(reversed(c["w"]["thr"]))
        elif m == "weight-order":
            m = "fillW"
        if m == "fillW":
            c["fillW"] = "nearest"
        c["malformed"] = m
    return c


def with_opts(base, fillF, integ, propagate, components=True):
    c = dict(base)
    c.update(fillF=fillF, integ=integ, propagate=propagate, components=components)
    if base.get("malformed") == "fillF":
        c["fillF"] = "cubic"
    if base.get("malformed") == "integ":
        c["integ"] = "simpson"
    return c


REGRESSION = [
    # F3 (repaired by c6c9dbb): constant weight 1/2 under exact integration must give half the CRPS
    dict(thr=[0.0, 1.0, 2.0, 3.0], rows=[[0.25, 0.5, 0.75, 1.0]], extra={}, order=["T"], oob=False, obs_dims=[], obs_vals=[0.0],
         obs_order=[], w=dict(thr=[0.0, 1.0, 2.0, 3.0], dims=[], rows=[[0.5, 0.5, 0.5, 0.5]], order=["T"]), fillW="forward",
         additional=None, malformed=None),
    # F3b (repaired by c6c9dbb): a single weight-0 cell between two weight-1 cells must not be counted
    dict(thr=[0.0, 1.0, 2.0, 3.0], rows=[[0.25, 0.5, 0.75, 1.0]], extra={}, order=["T"], oob=False, obs_dims=[], obs_vals=[0.0],
         obs_order=[], w=dict(thr=[0.0, 1.0, 2.0, 3.0], dims=[], rows=[[1.0, 0.0, 1.0, 1.0]], order=["T"]), fillW="forward",
         additional=None, malformed=None),
    dict(thr=[0.0, 1.0, 2.0, 3.0], rows=[[0.25, 0.5, 0.75, 1.0]], extra={}, order=["T"], oob=False, obs_dims=[], obs_vals=[1.5],
         obs_order=[], w=dict(thr=[0.0, 1.0, 2.0, 3.0], dims=[], rows=[[0.0, 1.0, 0.0, 0.0]], order=["T"]), fillW="forward",
         additional=None, malformed=None),
]


# witnesses of recorded findings (replayed on every run so that the KNOWN-FINDING line is stable)
KNOWN_WITNESSES = [
    # F18: a non-negative weight with a value above 1 is rejected (ValueError from fill_cdf's CDF bounds guard)
    dict(thr=[0.0, 1.0, 2.0, 3.0], rows=[[0.25, 0.5, 0.75, 1.0]], extra={}, order=["T"], oob=False, obs_dims=[], obs_vals=[0.0],
         obs_order=[], w=dict(thr=[0.0, 1.0, 2.0, 3.0], dims=[], rows=[[2.0, 2.0, 2.0, 2.0]], order=["T"]), fillW="forward",
         additional=None, malformed=None),
]


# ----------------------------------------------------------------------------- implementation
def mk_weight(c, tdim):
    w = c["w"]
    if w is None:
        return None
    shape = [c["extra"][d] for d in w["dims"]] + [len(w["thr"])]
    a = np.array(w["rows"], dtype=float).reshape(shape)
    coords = {d: list(range(10, 10 + c["extra"][d])) for d in w["dims"]}
    coords[tdim] = np.array(w["thr"], dtype=float)
    da = xr.DataArray(a, dims=w["dims"] + [tdim], coords=coords).transpose(*[tdim if d == "T" else d for d in w["order"]])
    return xr.DataArray(np.array(da.values, dtype=float, order="C", copy=True), dims=da.dims, coords={k: coords[k] for k in da.dims})


def weight_per_row(c):
    w = c["w"]
    return cc.broadcast_rows(c, w["dims"], w["rows"])


def run_crps(c, reduce_all=False):
    """per-case [{'total','under','over'}] (or total only), or {'err': class}"""
    from scores.probability import crps_cdf
    tdim = cc.fresh("thre", "shold")
    try:
        with np.errstate(all="ignore"):
            kw = {}
            if reduce_all:
                kw["reduce_dims"] = None
            else:
                kw["preserve_dims"] = [cc.fresh(d, "") for d in sorted(c["extra"])]
            ds = crps_cdf(cc.mk(c, tdim), cc.mk_obs(c), threshold_dim=tdim, threshold_weight=mk_weight(c, tdim),
                          additional_thresholds=c["additional"], propagate_nans=c["propagate"], fcst_fill_method=c["fillF"],
                          threshold_weight_fill_method=c["fillW"], integration_method=c["integ"],
                          include_components=c["components"], **kw)
            names = {"total": "total", "under": "underforecast_penalty", "over": "overforecast_penalty"}
            if not c["components"]:
                if set(ds.data_vars) != {"total"}:
                    return {"err": "Other:unexpected-variables"}
                names = {"total": "total"}
            elif set(ds.data_vars) != set(names.values()):
                return {"err": "Other:unexpected-variables"}
            if reduce_all:
                return {k: float(ds[v].values) for k, v in names.items()}
            cols = {k: cc.scalars_of(ds[v], c) for k, v in names.items()}
            n = len(cols["total"])
            return [{k: float(cols[k][i]) for k in cols} for i in range(n)]
    except Exception as ex:  # noqa: BLE001
        return {"err": core.exc_class(ex)}


def run_brier(c, reduce_all=False):
    from scores.probability import crps_cdf_brier_decomposition
    tdim = cc.fresh("thre", "shold")
    try:
        with np.errstate(all="ignore"):
            kw = {"reduce_dims": None} if reduce_all else {"preserve_dims": [cc.fresh(d, "") for d in sorted(c["extra"])]}
            ds = crps_cdf_brier_decomposition(cc.mk(c, tdim), cc.mk_obs(c), threshold_dim=tdim,
                                              additional_thresholds=c["additional"], fcst_fill_method=c["fillF"], **kw)
            names = {"total": "total_penalty", "under": "underforecast_penalty", "over": "overforecast_penalty"}
            out = {"grid": [float(v) for v in ds[tdim].values]}
            for k, v in names.items():
                if reduce_all:
                    out["mean_" + k] = [float(x) for x in ds[v].values]
                else:
                    out[k] = cc.rows_of(ds[v], c, tdim)
            return out
    except Exception as ex:  # noqa: BLE001
        return {"err": core.exc_class(ex)}


def args_of(c):
    S = core.fl_str
    L = lambda xs: [S(x) for x in xs]
    a = {"thr": L(c["thr"]), "rows": [L(r) for r in c["rows"]], "obs": L(cc.obs_per_row(c)),
         "additional": L(c["additional"] or []), "propagate": c.get("propagate", True), "fillF": c["fillF"],
         "fillW": c["fillW"], "integ": c.get("integ", "exact")}
    if c["w"] is not None:
        a["w"] = {"thr": L(c["w"]["thr"]), "rows": [L(r) for r in weight_per_row(c)]}
    return a


def same(impl, model):
    if isinstance(model, dict) and "fail" in model:
        return False
    if isinstance(impl, dict) and "err" in impl:
        return isinstance(model, dict) and model.get("err") == impl["err"]
    if isinstance(model, dict) and "err" in model:
        return False
    if isinstance(model, dict):
        return all(k in model and same(impl[k], model[k]) for k in impl)
    if isinstance(model, list):
        return isinstance(impl, list) and len(impl) == len(model) and all(same(a, b) for a, b in zip(impl, model))
    return core.close(impl, model)


def weight_class(c, spec_rows):
    """tags that describe the weight of a case as the property sees it (filled on the common grid)"""
    if c["w"] is None:
        return "none"
    vals = []
    for r in spec_rows:
        vals += [core.parse_fl(x) for x in r["w"][:-1]]
    if any(v > 1 for r in c["w"]["rows"] for v in r if not math.isnan(v)):
        return "above-one"
    if any(core.is_nan(v) for v in vals):
        return "nan"
    if all(v in (0, 1) for v in vals):
        return "binary"
    return "non-binary"


def base_tags(ctx, c):
    if c.get("malformed"):
        ctx.tag("malformed:" + c["malformed"])
        return
    thr = c["thr"]
    for o in c["obs_vals"]:
        if math.isnan(o):
            ctx.tag("obs:nan")
        elif o in thr:
            ctx.tag("obs:on-threshold")
        elif o < min(thr) or o > max(thr):
            ctx.tag("obs:outside-grid")
        else:
            ctx.tag("obs:between-thresholds")
    ctx.tag("weight:" + ("none" if c["w"] is None else "given"))
    if c["additional"]:
        ctx.tag("additional-thresholds")
    if any(math.isnan(v) for r in c["rows"] for v in r):
        ctx.tag("fcst-has-nan")
    if len(c["extra"]):
        ctx.tag("extra-dims:%d" % len(c["extra"]))
    if c["order"].index("T") != len(c["order"]) - 1:
        ctx.tag("threshold-dim-not-last")


def combos(ctx, rng, base):
    """all 4 x 2 x 2 option combinations (thorough: every base; quick: every base, components on)"""
    for fillF, integ, prop in itertools.product(FILLS, INTEGS, [True, False]):
        yield with_opts(base, fillF, integ, prop, True)


# ----------------------------------------------------------------------------- tie X
def correspondence(ctx):
    rng = ctx.rng
    cases = []
    for b in REGRESSION:
        cases += list(combos(ctx, rng, b))
    for _ in range(ctx.n(26, 520)):
        b = gen_base(rng, malformed_ok=rng.random() < 0.18)
        base_tags(ctx, b)
        cs = list(combos(ctx, rng, b))
        if b.get("malformed"):
            cs = rng.sample(cs, 3)
        cases += cs
        if rng.random() < 0.3:
            cases.append(with_opts(b, rng.choice(FILLS), rng.choice(INTEGS), rng.random() < 0.5, False))
    models = core.run_driver("C07", [{"op": "c07.crps", "args": args_of(c)} for c in cases])
    for c, m in zip(cases, models):
        batch = "impl-vs-model:crps_cdf:" + c["integ"]
        impl = run_crps(c)
        nt = not c.get("malformed") and isinstance(impl, list) and any(not math.isnan(r["total"]) for r in impl)
        ctx.case(batch, c, nontrivial=nt)
        ctx.tag(f"opts:{c['fillF']}/{c['integ']}/propagate={c['propagate']}/components={c['components']}")
        if isinstance(impl, dict) and "err" in impl:
            ctx.tag("raises:" + impl["err"])
        if not same(impl, m):
            ctx.fail(batch, "correspondence", "crps_cdf", "value", c, observed=impl, expected=m,
                     tags={"integration_method": c["integ"], "fill": c["fillF"]})
    # Brier decomposition
    bcases = []
    for _ in range(ctx.n(60, 1500)):
        b = gen_base(rng, malformed_ok=False)
        b["w"] = None
        bcases.append(with_opts(b, rng.choice(FILLS), "trapz", True, True))
    models = core.run_driver("C07", [{"op": "c07.brier", "args": args_of(c)} for c in bcases])
    for c, m in zip(bcases, models):
        impl = run_brier(c)
        ctx.case("impl-vs-model:brier_decomposition", c, nontrivial=isinstance(impl, dict) and "err" not in impl)
        ok = same(impl, m)
        if ok and rng.random() < 0.3:
            red = run_brier(c, reduce_all=True)
            ok = same(red, m)
        if not ok:
            ctx.fail("impl-vs-model:brier_decomposition", "correspondence", "crps_cdf_brier_decomposition", "value", c,
                     observed=impl, expected=m, tags={"fill": c["fillF"]})
    # crps_step_threshold_weight
    from scores.probability.crps_impl import crps_step_threshold_weight
    scs = []
    for _ in range(ctx.n(40, 800)):
        n = rng.randint(1, 4)
        pts = [rng.choice([cc.NAN, rng.randint(-4, 12) / 2, rng.randint(-2, 6) * 1.0]) for _ in range(n)]
        tv = None if rng.random() < 0.3 else [rng.randint(-4, 12) / 2 for _ in range(rng.randint(0, 4))]
        scs.append({"points": pts, "tv": tv, "include": rng.random() < 0.6, "prec": rng.choice([0, 0, 0.5, 1, 2]), "upper": rng.random() < 0.5})
    models = core.run_driver("C07", [{"op": "c07.stepweight", "args": {"points": [core.fl_str(x) for x in c["points"]],
                                                                       "tv": None if c["tv"] is None else [core.fl_str(x) for x in c["tv"]],
                                                                       "include": c["include"], "prec": core.fl_str(c["prec"]),
                                                                       "upper": c["upper"]}} for c in scs])
    for c, m in zip(scs, models):
        ctx.case("impl-vs-model:step_threshold_weight", c, nontrivial=any(not math.isnan(p) for p in c["points"]))
        tdim = cc.fresh("thre", "shold")
        try:
            r = crps_step_threshold_weight(xr.DataArray(np.array(c["points"], dtype=float), dims=["p"]), tdim, threshold_values=c["tv"],
                                           steppoints_in_thresholds=c["include"], steppoint_precision=c["prec"], weight_upper=c["upper"])
            r = r.transpose("p", tdim)
            g = [float(v) for v in r[tdim].values]
            impl = {"grid": g, "rows": np.asarray(r.values, dtype=float).reshape(len(c["points"]), len(g)).tolist() if g else [[] for _ in c["points"]]}
        except Exception as ex:  # noqa: BLE001
            impl = {"err": core.exc_class(ex)}
        if not same(impl, m):
            ctx.fail("impl-vs-model:step_threshold_weight", "correspondence", "crps_step_threshold_weight", "value", c,
                     observed=impl, expected=m)


# ----------------------------------------------------------------------------- the property itself
def expected_parts(spec_row):
    p = spec_row["parts"]
    if p == "nan":
        return {"total": cc.NAN, "under": cc.NAN, "over": cc.NAN}
    return {k: core.parse_fl(p[k]) for k in ("total", "under", "over")}


def check_crps(ctx, c, spec, batch):
    """C07 on one (case, options): the implementation against the exact integral (Lean Spec) and the relations"""
    n0 = len(ctx.failures)
    impl = run_crps(c)
    wclass = weight_class(c, spec)
    tags = {"integration_method": c["integ"], "fill": c["fillF"], "weight_values": wclass, "propagate_nans": c["propagate"]}

    def bad(sig, obs=None, exp=None, thm=None, extra=None):
        ctx.fail(batch, "property", "crps_cdf", sig, c, observed=obs, expected=exp, tags=dict(tags, **(extra or {})), theorem=thm)

    if isinstance(impl, dict) and "err" in impl:
        if wclass == "above-one" and impl["err"] == "ValueError":
            # candidate finding F18 (notes/C07.md): a non-negative weight with a value above 1 is rejected
            bad("weight-above-one-rejected", impl["err"], [expected_parts(s) for s in spec], None, {"defect": "F18"})
        else:
            bad("unexpected-exception", impl["err"], [expected_parts(s) for s in spec])
        return len(ctx.failures) - n0
    keys = ("total", "under", "over") if c["components"] else ("total",)
    for i, (r, s) in enumerate(zip(impl, spec)):
        exp = expected_parts(s)
        for k in keys:
            if not core.close(r[k], exp[k]):
                sig = {"exact": "differs-from-exact-weighted-integral", "trapz": "differs-from-trapezoid-sum"}[c["integ"]]
                bad(sig, {"row": i, k: r[k]}, {k: exp[k]}, "exact_eq_spec" if c["integ"] == "exact" else "trapz_eq_spec", {"component": k})
                break
        if c["components"] and not math.isnan(r["total"]):
            if not core.close_ff(r["under"] + r["over"], r["total"]):
                bad("under+over!=total", r, None, "under_add_over")
            if r["under"] < -1e-12 or r["over"] < -1e-12:
                bad("negative-component", r, None, "under_nonneg")
        if c["propagate"] and any(math.isnan(v) for v in c["rows"][i]) and not math.isnan(r["total"]):
            bad("nan-ordinate-not-propagated", r, "nan", "nan_case_local")
    return len(ctx.failures) - n0


def check_trapz_vs_brier(ctx, c, batch):
    """trapezoid method (w = 1) = trapezoid integral of the Brier decomposition over the same thresholds"""
    n0 = len(ctx.failures)
    c = dict(c, w=None, integ="trapz", propagate=True, components=True)
    impl = run_crps(c)
    br = run_brier(c)
    if (isinstance(impl, dict) and "err" in impl) or "err" in br:
        ctx.fail(batch, "property", "crps_cdf", "unexpected-exception", c, observed=[impl, br], tags={"relation": "trapz-vs-brier"})
        return 1
    g = np.array(br["grid"])
    for i, r in enumerate(impl):
        for k in ("total", "under", "over"):
            y = np.array(br[k][i], dtype=float)
            want = float(np.sum((g[1:] - g[:-1]) * (y[1:] + y[:-1]) / 2)) if not np.isnan(y).any() else cc.NAN
            if not core.close_ff(r[k], want):
                ctx.fail(batch, "property", "crps_cdf", "trapz-differs-from-trapezoid-of-brier-decomposition", c,
                         observed={"row": i, k: r[k]}, expected=want, tags={"relation": "trapz-vs-brier", "component": k},
                         theorem="trapz_eq_integral_of_brier")
                break
    return len(ctx.failures) - n0


def check_complement(ctx, c, batch):
    """weights w and 1 - w (which sum to one) give scores that sum to the unweighted score"""
    n0 = len(ctx.failures)
    if c["w"] is None or c["fillW"] == "step" or any(math.isnan(v) or v > 1 for r in c["w"]["rows"] for v in r) \
            or len(c["w"]["thr"]) < 2:
        return 0
    c = dict(c, components=True)
    c2 = dict(c, w=dict(c["w"], rows=[[1.0 - v for v in r] for r in c["w"]["rows"]]))
    # the unweighted score over the same span: the weight's thresholds are passed as additional thresholds
    c0 = dict(c, w=None, additional=list(c["additional"] or []) + list(c["w"]["thr"]))
    a, b, u = run_crps(c), run_crps(c2), run_crps(c0)
    if any(isinstance(x, dict) for x in (a, b, u)):
        ctx.fail(batch, "property", "crps_cdf", "unexpected-exception", c, observed=[a, b, u], tags={"relation": "complementary-weights"})
        return 1
    for i in range(len(u)):
        for k in ("total", "under", "over"):
            if not core.close_ff(a[i][k] + b[i][k], u[i][k]):
                ctx.fail(batch, "property", "crps_cdf", "complementary-weights-do-not-sum-to-unweighted", c,
                         observed={"row": i, "w": a[i][k], "1-w": b[i][k]}, expected=u[i][k],
                         tags={"relation": "complementary-weights", "integration_method": c["integ"], "component": k},
                         theorem="complementary_weights")
                return len(ctx.failures) - n0
    return 0


def check_mean(ctx, c, batch):
    """reduce_dims=None is the NaN-skipping mean of the per-case scores"""
    per = run_crps(c)
    red = run_crps(c, reduce_all=True)
    if isinstance(per, dict) or "err" in red:
        return 0
    for k in red:
        v = [r[k] for r in per if not math.isnan(r[k])]
        want = sum(v) / len(v) if v else cc.NAN
        if not core.close_ff(red[k], want):
            ctx.fail(batch, "property", "crps_cdf", "mean-over-cases-differs", c, observed=red[k], expected=want, tags={"relation": "mean"})
            return 1
    return 0


def check_brier(ctx, c, spec, batch):
    """per-threshold Brier decomposition: (F − H)² split by H, on the common grid"""
    n0 = len(ctx.failures)
    br = run_brier(c)
    if "err" in br:
        ctx.fail(batch, "property", "crps_cdf_brier_decomposition", "unexpected-exception", c, observed=br["err"])
        return 1
    obs = cc.obs_per_row(c)
    for i, s in enumerate(spec):
        grid = [core.parse_fl(x) for x in s["grid"]]
        if not same(br["grid"], s["grid"]):
            ctx.fail(batch, "property", "crps_cdf_brier_decomposition", "thresholds-not-the-union", c, observed=br["grid"], expected=s["grid"])
            break
        f = [core.parse_fl(x) for x in s["f"]]
        for k, (x, fk) in enumerate(zip(grid, f)):
            if core.is_nan(fk) or math.isnan(obs[i]):
                want = (cc.NAN, cc.NAN, cc.NAN)
            else:
                h = 1 if x >= Fraction(obs[i]) else 0
                b = (fk - h) ** 2
                want = (b, b if h == 0 else 0, b if h == 1 else 0)
            got = (br["total"][i][k], br["under"][i][k], br["over"][i][k])
            if not all(core.close(a, w) for a, w in zip(got, want)):
                ctx.fail(batch, "property", "crps_cdf_brier_decomposition", "differs-from-(F-H)^2-split-by-H", c,
                         observed={"row": i, "k": k, "got": got}, expected=want, theorem="brier_row_spec")
                return len(ctx.failures) - n0
    return len(ctx.failures) - n0


def oracle(ctx, boost):
    rng = ctx.rng
    mult = 5 if boost else 1
    bases = list(REGRESSION) + [dict(b) for b in KNOWN_WITNESSES]
    for _ in range(ctx.n(26, 460) * mult):
        b = gen_base(rng)
        if rng.random() < 0.04:
            b["w"] = gen_weight(rng, b, "above-one")
        bases.append(b)
    cases = []
    for b in bases:
        cs = list(combos(ctx, rng, b))
        cases += cs
        cases.append(with_opts(b, rng.choice(FILLS), rng.choice(INTEGS), rng.random() < 0.5, False))
    specs = core.run_driver("C07", [{"op": "c07.spec", "args": args_of(c)} for c in cases])
    for c, s in zip(cases, specs):
        batch = "property:crps_cdf:" + c["integ"]
        ctx.case(batch, c, nontrivial=any(r["parts"] != "nan" for r in s))
        ctx.tag("weight-class:" + weight_class(c, s))
        check_crps(ctx, c, s, batch)
    # relations and the Brier decomposition on a sample of (base, options)
    rel = rng.sample(list(zip(cases, specs)), min(len(cases), ctx.n(120, 2000) * mult)) + \
        [(c, s) for c, s in zip(cases[:48], specs[:48])]
    for c, s in rel:
        ctx.case("property:relations", c, nontrivial=True)
        check_complement(ctx, c, "property:relations")
        r = rng.random()
        if r < 0.35:
            check_trapz_vs_brier(ctx, c, "property:relations")
        elif r < 0.55:
            check_mean(ctx, c, "property:relations")
        elif r < 0.8 and c["propagate"]:
            check_brier(ctx, dict(c, w=None), s, "property:brier_decomposition") if c["w"] is None else None


def replay(ctx, payload):
    c = cc.decode_case(payload["case"])
    ctx2 = core.Ctx("C07", "quick", 0)
    site, sig = payload.get("site"), payload.get("signature")
    if payload.get("kind") == "correspondence":
        if site == "crps_cdf":
            m = core.run_driver("C07", [{"op": "c07.crps", "args": args_of(c)}])[0]
            return not same(run_crps(c), m)
        if site == "crps_cdf_brier_decomposition":
            m = core.run_driver("C07", [{"op": "c07.brier", "args": args_of(c)}])[0]
            return not same(run_brier(c), m)
        return True
    rel = (payload.get("tags") or {}).get("relation")
    if rel == "trapz-vs-brier":
        return check_trapz_vs_brier(ctx2, c, "replay") > 0
    if rel == "complementary-weights":
        return check_complement(ctx2, c, "replay") > 0
    if rel == "mean":
        return check_mean(ctx2, c, "replay") > 0
    s = core.run_driver("C07", [{"op": "c07.spec", "args": args_of(c)}])[0]
    if site == "crps_cdf_brier_decomposition":
        return check_brier(ctx2, c, s, "replay") > 0
    return check_crps(ctx2, c, s, "replay") > 0
