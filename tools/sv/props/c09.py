"""C09 — each contingency-table metric equals its formula; aliases and symmetries hold."""
from __future__ import annotations

import inspect
import itertools
import math

import numpy as np
import xarray as xr

from sv import core

PROPERTY = "C09"
GEN = ["Contingency"]
PROPS = ["ScoresVerif/Props/C09.lean", "ScoresVerif/Props/C09Zero.lean"]
AUDIT_FILES = ["ScoresVerif/Lemmas/C09Zero.lean"]
DRIVER_DEPS = ["ScoresVerif.Driver.C09"]
LEVEL = "proof"
TRUSTED = ["numpy log (libm) for SEDI: log is an uninterpreted function in the theorems"]
ASSUMPTIONS = ["counts are exactly representable (integers / dyadic) so float + and * are exact; quotients compared to 1e-9",
               "float rounding, overflow and signed zero are not modelled"]
MANIFEST = dict(
    level="proof",
    text="Kernel-checked Lean theorems about definitions regenerated from contingency_impl.py on every run: each of the 19 "
         "metrics equals its documented expression as a total IEEE-like function of the counts (all values incl. zero cells, "
         "NaN, inf), 16 alias equalities, fp<->fn swap laws for all count values, closed 2x2 forms and zero-cell "
         "classification; tied to the code by the translator plus an exhaustive correspondence over all tables up to a "
         "total and random larger ones.",
    note="Trusted: Lean kernel; propext/Classical.choice/Quot.sound; py2lean translator; SV.Fl (IEEE minus rounding, overflow, "
         "signed zero); libm log for SEDI is uninterpreted; harness tolerance 1e-9 on integer inputs; non-finite results of "
         "composite metrics whose intermediate quotient is not exactly representable are skipped (rounding-decided).",
    technique="Lean 4 theorems over translator-regenerated definitions + exhaustive differential correspondence",
    design="6/C09")
RULE = ("tables (tp,fp,fn,tn) enumerated exhaustively up to a total, then random larger / multi-dimensional; "
        "distinct = distinct table; non-trivial = total > 0")

ALIASES = {
    "fraction_correct": "accuracy", "bias_score": "frequency_bias", "hit_rate": "probability_of_detection",
    "true_positive_rate": "probability_of_detection", "sensitivity": "probability_of_detection",
    "recall": "probability_of_detection", "probability_of_false_detection": "false_alarm_rate",
    "critical_success_index": "threat_score", "true_skill_statistic": "peirce_skill_score",
    "hanssen_and_kuipers_discriminant": "peirce_skill_score", "true_negative_rate": "specificity",
    "precision": "success_ratio", "positive_predictive_value": "success_ratio",
    "gilberts_skill_score": "equitable_threat_score", "cohens_kappa": "heidke_skill_score",
    "yules_q": "odds_ratio_skill_score",
}
SWAP_INVARIANT = ["accuracy", "threat_score", "f1_score", "heidke_skill_score", "equitable_threat_score",
                  "odds_ratio", "odds_ratio_skill_score"]
NOT_METRICS = {"get_counts", "get_table", "format_table", "transform"}


def metric_names():
    from scores.categorical import BasicContingencyManager
    out = []
    for n, f in inspect.getmembers(BasicContingencyManager, predicate=inspect.isfunction):
        if n.startswith("_") or n in NOT_METRICS:
            continue
        out.append(n)
    return out


def tables_upto(total):
    out = []
    for n in range(total + 1):
        for tp in range(n + 1):
            for fp in range(n - tp + 1):
                for fn in range(n - tp - fp + 1):
                    out.append((tp, fp, fn, n - tp - fp - fn))
    return out


def manager(tabs):
    from scores.categorical import BasicContingencyManager
    a = np.array(tabs, dtype=float).reshape(-1, 4)
    da = lambda col: xr.DataArray(a[:, col].copy(), dims=["k"])
    cd = {"tp_count": da(0), "tn_count": da(3), "fp_count": da(1), "fn_count": da(2)}
    cd["total_count"] = cd["tp_count"] + cd["tn_count"] + cd["fp_count"] + cd["fn_count"]
    return BasicContingencyManager(cd)


def impl_all(tabs, names):
    m = manager(tabs)
    res = {}
    with np.errstate(all="ignore"):
        for n in names:
            try:
                res[n] = np.asarray(getattr(m, n)().values, dtype=float)
            except Exception as ex:  # the property forbids exceptions
                res[n] = ex
    return res


def ops_for(tabs, op):
    return [{"op": op, "args": {"tp": core.fl_str(t[0]), "fp": core.fl_str(t[1]), "fn": core.fl_str(t[2]),
                                "tn": core.fl_str(t[3]), "total": core.fl_str(sum(t))}} for t in tabs]


def sedi_from(pod, pofd):
    with np.errstate(all="ignore"):
        pod = np.float64(pod)
        pofd = np.float64(pofd)
        num = np.log(pofd) - np.log(pod) + np.log(1 - pod) - np.log(1 - pofd)
        den = np.log(pofd) + np.log(pod) + np.log(1 - pod) + np.log(1 - pofd)
        return float(num / den)


def gen_tables(ctx):
    tabs = tables_upto(ctx.n(12, 24))
    ctx.exhaustive.append(f"all tables with total <= {ctx.n(12, 24)} ({len(tabs)})")
    rng = ctx.rng
    extra = []
    for _ in range(ctx.n(300, 5000)):
        scale = rng.choice([30, 1000, 10 ** 6])
        t = tuple(rng.choice([0, 0, rng.randint(0, scale)]) for _ in range(4))
        extra.append(t)
    return tabs, extra


def _pow2(k):
    return k > 0 and (k & (k - 1)) == 0


def rounding_sensitive(t, n):
    """composite metrics divide by an intermediate quotient; when that quotient is not exactly
    representable (non power-of-two divisor) an exact 0 denominator becomes a tiny non-zero float and the
    IEEE result is decided by rounding, which the model does not carry (DESIGN §3.1).  Such non-finite
    mismatches are tagged and skipped; tables with power-of-two divisors keep the degenerate cases covered."""
    tp, fp, fn, tn = t
    if n in ("heidke_skill_score", "cohens_kappa", "equitable_threat_score", "gilberts_skill_score"):
        return not _pow2(sum(t))
    if n in ("odds_ratio", "symmetric_extremal_dependence_index"):
        return not ((tp + fn == 0 or _pow2(tp + fn)) and (tn + fp == 0 or _pow2(tn + fp)))
    return False


def compare(ctx, batch, kind, tabs, names, impl, model_rows, theorem_of=None):
    for i, t in enumerate(tabs):
        row = model_rows[i]
        ctx.case(batch, {"tp": t[0], "fp": t[1], "fn": t[2], "tn": t[3]}, nontrivial=sum(t) > 0)
        zero = "zero-total" if sum(t) == 0 else ("zero-cell" if 0 in t else "no-zero")
        ctx.tag(zero)
        for n in names:
            v = impl[n]
            if isinstance(v, Exception):
                ctx.fail(batch, "property", n, "exception", {"table": t}, observed=core.exc_class(v), expected="a value",
                         tags={"method": n})
                continue
            if n == "symmetric_extremal_dependence_index":
                exp = sedi_from(core.to_float(core.parse_fl(row["probability_of_detection"])),
                                core.to_float(core.parse_fl(row["false_alarm_rate"])))
                ok = core.close_ff(v[i], exp)
            else:
                if n not in row:
                    continue
                exp = row[n]
                ok = core.close(v[i], exp)
            if not ok and rounding_sensitive(t, n) and not (math.isfinite(float(v[i])) and
                                                            isinstance(core.parse_fl(exp) if isinstance(exp, str) else exp, core.Fraction)):
                ctx.tag("rounding-sensitive-skipped")
                continue
            if not ok:
                ctx.fail(batch, kind, n, "value", {"tp": t[0], "fp": t[1], "fn": t[2], "tn": t[3]},
                         observed=float(v[i]), expected=exp, tags={"method": n, "zero": zero},
                         theorem=(theorem_of or {}).get(n))


def correspondence(ctx):
    names = metric_names()
    tabs, extra = gen_tables(ctx)
    allt = tabs + extra
    impl = impl_all(allt, names)
    rows = core.run_driver("C09", ops_for(allt, "c09.metrics"))
    missing = [n for n in names if n not in rows[0]]
    if missing:
        ctx.notes.append(f"public metrics without a translated definition: {missing}")
    compare(ctx, "impl-vs-generated-model", "correspondence", allt, [n for n in names if n in rows[0]], impl, rows)
    # the four boolean maps of BinaryContingencyManager against the translated maps
    from scores.categorical import BinaryContingencyManager
    vals = [0.0, 1.0, float("nan")]
    pairs = list(itertools.product(vals, vals))
    f = xr.DataArray([p[0] for p in pairs], dims=["k"])
    o = xr.DataArray([p[1] for p in pairs], dims=["k"])
    m = BinaryContingencyManager(f, o)
    mrows = core.run_driver("C09", [{"op": "c09.maps", "args": {"fcst": core.fl_str(p[0]), "obs": core.fl_str(p[1])}} for p in pairs])
    for i, p in enumerate(pairs):
        ctx.case("binary-maps", {"fcst": p[0], "obs": p[1]}, nontrivial=not (math.isnan(p[0]) or math.isnan(p[1])))
        for cell in ("tp", "tn", "fp", "fn"):
            got = float(getattr(m, cell).values[i])
            if not core.close(got, mrows[i][cell]):
                ctx.fail("binary-maps", "correspondence", "BinaryContingencyManager." + cell, "value",
                         {"fcst": p[0], "obs": p[1]}, observed=got, expected=mrows[i][cell], tags={"cell": cell})


def oracle(ctx, boost):
    """the property itself on the implementation: documented formula (Lean Spec), aliases,
    swap symmetry, no exceptions, standalone POD/POFD = manager"""
    names = metric_names()
    tabs = tables_upto(ctx.n(10, 16) + (6 if boost else 0))
    rng = ctx.rng
    for _ in range(ctx.n(200, 3000) * (5 if boost else 1)):
        scale = rng.choice([30, 1000, 10 ** 6])
        tabs.append(tuple(rng.choice([0, rng.randint(0, scale)]) for _ in range(4)))
    impl = impl_all(tabs, names)
    spec = core.run_driver("C09", ops_for(tabs, "c09.spec"))
    thm = {"accuracy": "accuracy_eq_doc", "probability_of_detection": "pod_eq_doc", "heidke_skill_score": "hss_eq_doc",
           "equitable_threat_score": "ets_eq_doc", "odds_ratio": "odds_ratio_eq_doc"}
    compare(ctx, "impl-vs-documented-formula", "property", tabs, [n for n in names if n in spec[0] or n == "symmetric_extremal_dependence_index"],
            impl, [dict(r, **{"probability_of_detection": r["probability_of_detection"], "false_alarm_rate": r["false_alarm_rate"]}) for r in spec], thm)
    # aliases
    for al, base in ALIASES.items():
        if al not in impl or base not in impl:
            ctx.notes.append(f"alias {al} or base {base} missing from the public class")
            continue
        a, b = impl[al], impl[base]
        if isinstance(a, Exception) or isinstance(b, Exception):
            continue
        for i, t in enumerate(tabs):
            if not core.close_ff(a[i], b[i], rtol=0, atol=0):
                ctx.fail("aliases", "property", al, "alias-differs", {"tp": t[0], "fp": t[1], "fn": t[2], "tn": t[3]},
                         observed=float(a[i]), expected=float(b[i]), tags={"method": al}, theorem="alias_" + al)
                break
    ctx.batches.setdefault("aliases", {"cases": 0, "failed": 0})["cases"] += len(ALIASES) * len(tabs)
    # swap symmetry
    swapped = [(t[0], t[2], t[1], t[3]) for t in tabs]
    impl_s = impl_all(swapped, names)
    b = ctx.batches.setdefault("swap-symmetry", {"cases": 0, "failed": 0})
    for n in SWAP_INVARIANT + ["pod<->success_ratio"]:
        if n == "pod<->success_ratio":
            x, y = impl["probability_of_detection"], impl_s["success_ratio"]
        else:
            x, y = impl[n], impl_s[n]
        if isinstance(x, Exception) or isinstance(y, Exception):
            continue
        for i, t in enumerate(tabs):
            b["cases"] += 1
            if not core.close_ff(x[i], y[i]):
                ctx.fail("swap-symmetry", "property", n, "swap-changes-value",
                         {"tp": t[0], "fp": t[1], "fn": t[2], "tn": t[3]}, observed=float(y[i]), expected=float(x[i]),
                         tags={"method": n}, theorem="swap_" + n)
                break
    # standalone POD / POFD agree with the manager on binary inputs
    from scores.categorical import BinaryContingencyManager, probability_of_detection, probability_of_false_detection
    b = ctx.batches.setdefault("standalone-pod-pofd", {"cases": 0, "failed": 0})
    for _ in range(ctx.n(60, 600)):
        n = rng.randint(1, 7)
        mdim = rng.randint(1, 3)
        f = np.array([[rng.choice([0.0, 1.0, 1.0, float("nan")]) for _ in range(n)] for _ in range(mdim)])
        o = np.array([[rng.choice([0.0, 1.0, float("nan")]) for _ in range(n)] for _ in range(mdim)])
        fx = xr.DataArray(f, dims=["a", "b"])
        ox = xr.DataArray(o, dims=["a", "b"])
        red = rng.choice([None, ["b"], ["a"], ["a", "b"]])
        shape_kind = rng.choice(["same", "same", "obs-extra-dim", "fcst-extra-dim"])
        if shape_kind != "same":
            # one side carries a dimension the other lacks (broadcast): both entry points must treat it alike
            extra = xr.DataArray([rng.choice([0.0, 1.0, float("nan")]) for _ in range(2)], dims=["s"])
            flip = lambda base: xr.where(extra == 1, 1 - base, base).where(extra.notnull())
            if shape_kind == "obs-extra-dim":
                ox = flip(ox)
            else:
                fx = flip(fx)
            red = rng.choice([None, ["b"], ["a", "b"], ["s"], ["a", "b", "s"], "all"])
        ctx.tag("standalone:" + shape_kind)
        keep_all = None
        if rng.random() < 0.3:
            alld = sorted(set(fx.dims) | set(ox.dims))
            keep_all = rng.choice([{"preserve_dims": "all"}, {"preserve_dims": alld}, {"reduce_dims": []}])
            ctx.tag("standalone:keep-all")
        case_desc = {"fcst": core.canon(np.asarray(fx.values).tolist()), "fcst_dims": list(fx.dims),
                     "obs": core.canon(np.asarray(ox.values).tolist()), "obs_dims": list(ox.dims), "reduce_dims": red, "keep_all": keep_all}
        b["cases"] += 1
        ctx.evaluations += 1
        pairs = []
        for nm, fn in (("probability_of_detection", probability_of_detection),
                       ("probability_of_false_detection", probability_of_false_detection)):
            try:
                with np.errstate(all="ignore"):
                    req = {"reduce_dims": red}
                    if keep_all is not None:
                        req = keep_all       # nothing reduced: per-point tables (preserve 'all', every dim named, or reduce [])
                    man = BinaryContingencyManager(fx, ox).transform(**req)
                    pairs.append((nm, fn(fx, ox, **req), getattr(man, nm)()))
            except Exception as ex:       # both entry points accept these inputs on the unchanged tree
                ctx.fail("standalone-pod-pofd", "property", "binary." + nm, "exception:" + core.exc_class(ex), case_desc,
                         observed=str(ex)[:200], expected="the manager's value", tags={"method": nm})
        for nm, s, mres in pairs:
            sv = np.asarray(s.transpose(*sorted(s.dims)).values, dtype=float).ravel()
            mv = np.asarray(mres.transpose(*sorted(mres.dims)).values, dtype=float).ravel()
            if sorted(s.dims) != sorted(mres.dims):
                sv = np.array([float("inf")])      # different result dimensions: certainly not the same answer
            if sv.shape != mv.shape or not all(core.close_ff(x, y) for x, y in zip(sv, mv)):
                ctx.fail("standalone-pod-pofd", "property", "binary." + nm, "standalone-differs",
                         {"fcst": core.canon(np.asarray(fx.values).tolist()), "fcst_dims": list(fx.dims), "obs": core.canon(np.asarray(ox.values).tolist()),
                          "obs_dims": list(ox.dims), "reduce_dims": red}, observed=sv.tolist(), expected=mv.tolist(),
                         tags={"method": nm})


def replay(ctx, payload):
    case = payload["case"]
    if "tp" in case:
        t = (int(case["tp"]), int(case["fp"]), int(case["fn"]), int(case["tn"]))
        names = metric_names()
        impl = impl_all([t], names)
        spec = core.run_driver("C09", ops_for([t], "c09.spec"))
        ctx2 = core.Ctx("C09", "quick", 0)
        compare(ctx2, "replay", "property", [t], [n for n in names if n in spec[0] or n == "symmetric_extremal_dependence_index"], impl, spec)
        site = payload.get("site")
        if site in ALIASES and not isinstance(impl[site], Exception):
            if not core.close_ff(impl[site][0], impl[ALIASES[site]][0], 0, 0):
                return True
        if payload.get("signature") == "swap-changes-value":
            s = impl_all([(t[0], t[2], t[1], t[3])], names)
            n = site
            x, y = (impl["probability_of_detection"], s["success_ratio"]) if n.startswith("pod<->") else (impl[n], s[n])
            return not core.close_ff(x[0], y[0])
        return any(f["site"] == site for f in ctx2.failures) if site else bool(ctx2.failures)
    return True
