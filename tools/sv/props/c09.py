"""C09 — each contingency-table metric equals its formula; aliases and symmetries hold."""
from __future__ import annotations

import inspect
import itertools
import math

import numpy as np
import xarray as xr

from sv import core

PROPERTY = "C09"
GEN = ["Contingency"]
PROPS = ["ScoresVerif/Props/C09.lean", "ScoresVerif/Props/C09Zero.lean"]
AUDIT_FILES = ["ScoresVerif/Lemmas/C09Zero.lean"]
DRIVER_DEPS = ["ScoresVerif.Driver.C09Spec", "ScoresVerif.Driver.C09"]
LEVEL = "proof"
TRUSTED = ["numpy log (libm) for SEDI: log is an uninterpreted function in the theorems"]
ASSUMPTIONS = ["counts are exactly representable (integers / dyadic) so float + and * are exact; quotients compared to 1e-9",
               "float rounding, overflow and signed zero are not modelled",
               "storage dtypes (int64/int32/int16/int8/uint8/uint16/float32/bool) are an oracle-only input class: expected values "
               "come from Lean Spec on the exact values; float32 storage compared at 1e-5 on tables with total <= 64; integer "
               "overflow of the formula's own sub-expressions in the counts' dtype is the written-up defect F-C09a/b (notes/C09.md)"]
MANIFEST = dict(
    level="proof",
    text="Kernel-checked Lean theorems about definitions regenerated from contingency_impl.py on every run: each of the 19 "
         "metrics equals its documented expression as a total IEEE-like function of the counts (all values incl. zero cells, "
         "NaN, inf), 16 alias equalities, fp<->fn swap laws for all count values, closed 2x2 forms and zero-cell "
         "classification; tied to the code by the translator plus an exhaustive correspondence over all tables up to a "
         "total and random larger ones.",
    note="Trusted: Lean kernel; propext/Classical.choice/Quot.sound; py2lean translator; SV.Fl (IEEE minus rounding, overflow, "
         "signed zero); libm log for SEDI is uninterpreted; harness tolerance 1e-9 on integer inputs; non-finite results of "
         "composite metrics whose intermediate quotient is not exactly representable are skipped (rounding-decided).",
    technique="Lean 4 theorems over translator-regenerated definitions + exhaustive differential correspondence",
    design="6/C09")
RULE = ("tables (tp,fp,fn,tn) enumerated exhaustively up to a total, then random larger / multi-dimensional; "
        "the same tables stored as int64/int32/int16/int8/float32/float64 (uint8/uint16 in separate batches) counts in 1-d, "
        "0-d and Python-number DataArrays, and 0/1 event arrays of every such dtype and bool through transform() and the "
        "standalone POD/POFD; distinct = distinct table (x dtype x container); non-trivial = total > 0")

ALIASES = {
    "fraction_correct": "accuracy", "bias_score": "frequency_bias", "hit_rate": "probability_of_detection",
    "true_positive_rate": "probability_of_detection", "sensitivity": "probability_of_detection",
    "recall": "probability_of_detection", "probability_of_false_detection": "false_alarm_rate",
    "critical_success_index": "threat_score", "true_skill_statistic": "peirce_skill_score",
    "hanssen_and_kuipers_discriminant": "peirce_skill_score", "true_negative_rate": "specificity",
    "precision": "success_ratio", "positive_predictive_value": "success_ratio",
    "gilberts_skill_score": "equitable_threat_score", "cohens_kappa": "heidke_skill_score",
    "yules_q": "odds_ratio_skill_score",
}
SWAP_INVARIANT = ["accuracy", "threat_score", "f1_score", "heidke_skill_score", "equitable_threat_score",
                  "odds_ratio", "odds_ratio_skill_score"]
NOT_METRICS = {"get_counts", "get_table", "format_table", "transform"}


def metric_names():
    from scores.categorical import BasicContingencyManager
    out = []
    for n, f in inspect.getmembers(BasicContingencyManager, predicate=inspect.isfunction):
        if n.startswith("_") or n in NOT_METRICS:
            continue
        out.append(n)
    return out


def tables_upto(total):
    out = []
    for n in range(total + 1):
        for tp in range(n + 1):
            for fp in range(n - tp + 1):
                for fn in range(n - tp - fp + 1):
                    out.append((tp, fp, fn, n - tp - fp - fn))
    return out


def manager(tabs):
    from scores.categorical import BasicContingencyManager
    a = np.array(tabs, dtype=float).reshape(-1, 4)
    da = lambda col: xr.DataArray(a[:, col].copy(), dims=["k"])
    cd = {"tp_count": da(0), "tn_count": da(3), "fp_count": da(1), "fn_count": da(2)}
    cd["total_count"] = cd["tp_count"] + cd["tn_count"] + cd["fp_count"] + cd["fn_count"]
    # a counts dictionary is looked up BY KEY: the caller may build it in any key order (cycled deterministically)
    order = next(_KEY_ORDERS)
    return BasicContingencyManager({k: cd[k] for k in order})


import itertools as _itertools  # noqa: E402

_KEY_ORDERS = _itertools.cycle([
    ("tp_count", "tn_count", "fp_count", "fn_count", "total_count"),      # the order _get_counts produces
    ("total_count", "fn_count", "fp_count", "tn_count", "tp_count"),
    ("tp_count", "fp_count", "fn_count", "tn_count", "total_count"),      # 2x2 table reading order
    ("fn_count", "tp_count", "total_count", "tn_count", "fp_count"),
])


def impl_all(tabs, names):
    m = manager(tabs)
    res = {}
    with np.errstate(all="ignore"):
        for n in names:
            try:
                res[n] = np.asarray(getattr(m, n)().values, dtype=float)
            except Exception as ex:  # the property forbids exceptions
                res[n] = ex
    return res


def ops_for(tabs, op):
    return [{"op": op, "args": {"tp": core.fl_str(t[0]), "fp": core.fl_str(t[1]), "fn": core.fl_str(t[2]),
                                "tn": core.fl_str(t[3]), "total": core.fl_str(sum(t))}} for t in tabs]


def sedi_from(pod, pofd):
    with np.errstate(all="ignore"):
        pod = np.float64(pod)
        pofd = np.float64(pofd)
        num = np.log(pofd) - np.log(pod) + np.log(1 - pod) - np.log(1 - pofd)
        den = np.log(pofd) + np.log(pod) + np.log(1 - pod) + np.log(1 - pofd)
        return float(num / den)


def gen_tables(ctx):
    tabs = tables_upto(ctx.n(12, 24))
    ctx.exhaustive.append(f"all tables with total <= {ctx.n(12, 24)} ({len(tabs)})")
    rng = ctx.rng
    extra = []
    for _ in range(ctx.n(300, 5000)):
        scale = rng.choice([30, 1000, 10 ** 6])
        t = tuple(rng.choice([0, 0, rng.randint(0, scale)]) for _ in range(4))
        extra.append(t)
    return tabs, extra


def _pow2(k):
    return k > 0 and (k & (k - 1)) == 0


def rounding_sensitive(t, n):
    """composite metrics divide by an intermediate quotient; when that quotient is not exactly
    representable (non power-of-two divisor) an exact 0 denominator becomes a tiny non-zero float and the
    IEEE result is decided by rounding, which the model does not carry (DESIGN §3.1).  Such non-finite
    mismatches are tagged and skipped; tables with power-of-two divisors keep the degenerate cases covered."""
    tp, fp, fn, tn = t
    if n in ("heidke_skill_score", "cohens_kappa", "equitable_threat_score", "gilberts_skill_score"):
        return not _pow2(sum(t))
    if n in ("odds_ratio", "symmetric_extremal_dependence_index"):
        return not ((tp + fn == 0 or _pow2(tp + fn)) and (tn + fp == 0 or _pow2(tn + fp)))
    return False


def compare(ctx, batch, kind, tabs, names, impl, model_rows, theorem_of=None, extra=None, tol=None, defect=None):
    """extra: dict merged into every case description and (its scalar entries) into the tags (storage-dtype batches);
    tol: rtol = atol for quotients (float32 storage: the library legitimately computes in float32);
    defect(t, n): id of a written-up defect class of the unchanged code this (table, metric) falls in, or None"""
    extra = extra or {}
    xtags = {k: v for k, v in extra.items() if isinstance(v, (str, int, bool)) or v is None}
    kw = {} if tol is None else {"rtol": tol, "atol": tol}
    for i, t in enumerate(tabs):
        row = model_rows[i]
        ctx.case(batch, dict({"tp": t[0], "fp": t[1], "fn": t[2], "tn": t[3]}, **extra), nontrivial=sum(t) > 0)
        zero = "zero-total" if sum(t) == 0 else ("zero-cell" if 0 in t else "no-zero")
        ctx.tag(zero)
        for n in names:
            v = impl[n]
            if isinstance(v, Exception):
                ctx.fail(batch, "property", n, "exception", dict({"tp": t[0], "fp": t[1], "fn": t[2], "tn": t[3]}, **extra),
                         observed=core.exc_class(v), expected="a value", tags=dict(xtags, method=n))
                continue
            if n == "symmetric_extremal_dependence_index":
                exp = sedi_from(core.to_float(core.parse_fl(row["probability_of_detection"])),
                                core.to_float(core.parse_fl(row["false_alarm_rate"])))
                ok = core.close_ff(v[i], exp, **kw)
            else:
                if n not in row:
                    continue
                exp = row[n]
                ok = core.close(v[i], exp, **kw)
            if not ok and rounding_sensitive(t, n) and not (math.isfinite(float(v[i])) and
                                                            isinstance(core.parse_fl(exp) if isinstance(exp, str) else exp, core.Fraction)):
                ctx.tag("rounding-sensitive-skipped")
                continue
            if not ok:
                tags = dict(xtags, method=n, zero=zero)
                d = defect(t, n) if defect else None
                if d:
                    tags["defect"] = d
                ctx.fail(batch, kind, n, "value", dict({"tp": t[0], "fp": t[1], "fn": t[2], "tn": t[3]}, **extra),
                         observed=float(v[i]), expected=exp, tags=tags, theorem=(theorem_of or {}).get(n))


def correspondence(ctx):
    names = metric_names()
    tabs, extra = gen_tables(ctx)
    allt = tabs + extra
    impl = impl_all(allt, names)
    rows = core.run_driver("C09", ops_for(allt, "c09.metrics"))
    missing = [n for n in names if n not in rows[0]]
    if missing:
        ctx.notes.append(f"public metrics without a translated definition: {missing}")
    compare(ctx, "impl-vs-generated-model", "correspondence", allt, [n for n in names if n in rows[0]], impl, rows)
    # the four boolean maps of BinaryContingencyManager against the translated maps
    from scores.categorical import BinaryContingencyManager
    vals = [0.0, 1.0, float("nan")]
    pairs = list(itertools.product(vals, vals))
    f = xr.DataArray([p[0] for p in pairs], dims=["k"])
    o = xr.DataArray([p[1] for p in pairs], dims=["k"])
    m = BinaryContingencyManager(f, o)
    mrows = core.run_driver("C09", [{"op": "c09.maps", "args": {"fcst": core.fl_str(p[0]), "obs": core.fl_str(p[1])}} for p in pairs])
    for i, p in enumerate(pairs):
        ctx.case("binary-maps", {"fcst": p[0], "obs": p[1]}, nontrivial=not (math.isnan(p[0]) or math.isnan(p[1])))
        for cell in ("tp", "tn", "fp", "fn"):
            got = float(getattr(m, cell).values[i])
            if not core.close(got, mrows[i][cell]):
                ctx.fail("binary-maps", "correspondence", "BinaryContingencyManager." + cell, "value",
                         {"fcst": p[0], "obs": p[1]}, observed=got, expected=mrows[i][cell], tags={"cell": cell})


# ----------------------------------------------------------------------------- storage-dtype class (oracle only)
# The SAME count / event VALUES are stored as int64 / int32 / int16 / int8 / float32 / float64 (and, in separately
# tagged batches, uint8 / uint16), as 1-d DataArrays, 0-d DataArrays and 0-d DataArrays built from Python numbers.
# Expected value: Lean Spec on the exact values (the model has no notion of a storage dtype: the model value of an
# int16 7 is 7) + the relation "same values stored as float64 => same result".  float32 storage: the library
# legitimately computes in float32, so quotients are compared at 1e-5 (tables with total <= 64 only); everything else
# at the usual 1e-9.  Not in the correspondence (the translated model works on Fl values).
SIGNED_DT = ["int64", "int32", "int16", "int8"]
UNSIGNED_DT = ["uint8", "uint16"]
FLOAT_DT = ["float32", "float64"]
EVENT_DT = SIGNED_DT + ["bool"] + FLOAT_DT
F32_TOL = 1e-5
DEFECT_SIGNED = "F-C09a"       # notes/C09.md: integer sub-expression of the formula overflows the counts' own (signed) dtype
DEFECT_UNSIGNED = "F-C09b"     # notes/C09.md: unsigned counts: tp*tn - fp*fn wraps around / products overflow


def _base(n):
    return ALIASES.get(n, n)


def int_subexpressions(t, n):
    """the integer-valued sub-expressions of the DOCUMENTED formula of metric n (sums of cells never exceed the total,
    which is itself stored in the dtype, so only the doubled cell and the products matter)"""
    tp, fp, fn, tn = t
    b = _base(n)
    if b == "f1_score":
        return [2 * tp, 2 * tp + fp + fn]
    if b == "equitable_threat_score":
        return [(tp + fn) * (tp + fp)]
    if b == "heidke_skill_score":
        x, y = (tp + fn) * (tp + fp), (tn + fn) * (tn + fp)
        return [x, y, x + y]
    if b == "odds_ratio_skill_score":
        x, y = tp * tn, fn * fp
        return [x, y, x - y, x + y]
    return []


def dtype_defect(dt):
    """classifier for compare(): a failure is attributed to the written-up integer-overflow defects only when an
    integer sub-expression of the documented formula, evaluated exactly, lies outside the range of the storage dtype"""
    d = np.dtype(dt)
    if d.kind not in "iu":
        return None
    lo, hi = int(np.iinfo(d).min), int(np.iinfo(d).max)
    ident = DEFECT_UNSIGNED if d.kind == "u" else DEFECT_SIGNED

    def f(t, n):
        return ident if any(v < lo or v > hi for v in int_subexpressions(t, n)) else None
    return f


def dt_limit(dt):
    """largest total of a table whose cells AND total are stored exactly in dt (float32: small enough that the
    float32 computation stays within F32_TOL of the exact value)"""
    d = np.dtype(dt)
    if d.kind in "iu":
        return min(int(np.iinfo(d).max), 10 ** 6)
    return 64 if d == np.dtype("float32") else 10 ** 6


def split_total(rng, total):
    cuts = sorted(rng.randint(0, total) for _ in range(3))
    t = [cuts[0], cuts[1] - cuts[0], cuts[2] - cuts[1], total - cuts[2]]
    if rng.random() < 0.4:          # zero cells: move one cell's content into another
        i, j = rng.sample(range(4), 2)
        t[j] += t[i]
        t[i] = 0
    rng.shuffle(t)
    return tuple(t)


def gen_dtype_tables(ctx, dt, boost):
    rng = ctx.rng
    lim = dt_limit(dt)
    tabs = tables_upto(5)                                   # every dtype: all tables with total <= 5 (fit int8, no overflow)
    edge = [lim, lim - 1, lim // 2 + 1, lim // 2]
    d = np.dtype(dt)
    if d.kind in "iu":
        r = math.isqrt(int(np.iinfo(d).max))                # products of marginal sums sit exactly at the dtype's edge
        edge += [x for x in (r, r + 1, 2 * r) if x <= lim]
    for m in edge:
        tabs += [(m, 0, 0, 0), (0, m, 0, 0), (0, 0, m, 0), (0, 0, 0, m), (m // 2, m - m // 2, 0, 0), (m // 2, 0, m - m // 2, 0),
                 (m // 2, 0, 0, m - m // 2), (0, m // 2, m - m // 2, 0), (m - 3 * (m // 4), m // 4, m // 4, m // 4)]
        tabs.append(split_total(rng, m))
    for _ in range(ctx.n(40, 400) * (5 if boost else 1)):
        scale = rng.choice([12, 64, min(lim, 181), min(lim, 1000), lim])
        tabs.append(split_total(rng, rng.randint(1, scale)))
    tabs += [(200, 100, 100, 200), (1, 2, 2, 1)] if lim >= 600 else [(1, 2, 2, 1)]      # the written-up witnesses
    seen, out = set(), []
    for t in tabs:
        if t not in seen and sum(t) <= lim and min(t) >= 0:
            seen.add(t)
            out.append(t)
    return out


def manager_dt(tabs, dt, container):
    """container: 'vector' (1-d DataArrays over all tables) | 'zero-d' (one table, 0-d DataArrays of the dtype) |
    'python-number' (one table, xr.DataArray(<python int / float>): numpy's default int64 / float64)"""
    from scores.categorical import BasicContingencyManager
    dim = "".join(["k", "k"])
    if container == "vector":
        a = np.array(tabs, dtype=dt).reshape(-1, 4)
        da = lambda col: xr.DataArray(a[:, col].copy(), dims=[dim])
    elif container == "zero-d":
        da = lambda col: xr.DataArray(np.array(tabs[0][col], dtype=dt))
    else:
        conv = float if np.dtype(dt).kind == "f" else int
        da = lambda col: xr.DataArray(conv(tabs[0][col]))
    cd = {"tp_count": da(0), "tn_count": da(3), "fp_count": da(1), "fn_count": da(2)}
    cd["total_count"] = cd["tp_count"] + cd["tn_count"] + cd["fp_count"] + cd["fn_count"]
    for v in cd.values():
        assert v.dtype == np.dtype(dt), (v.dtype, dt)
    return BasicContingencyManager(cd)


def impl_all_dt(tabs, names, dt, container):
    res = {}
    with np.errstate(all="ignore"):
        try:
            m = manager_dt(tabs, dt, container)
        except AssertionError:
            raise
        except Exception as ex:
            return {n: ex for n in names}
        for n in names:
            try:
                res[n] = np.asarray(getattr(m, n)().values, dtype=float).reshape(-1)
            except Exception as ex:
                res[n] = ex
    return res


def compare_dt(ctx, batch, tabs, names, impl, impl64, rows, dt, container):
    """one storage dtype / container: documented formula on the exact values, float64-storage relation, aliases"""
    extra = {"dtype": dt, "container": container}
    tol = F32_TOL if dt == "float32" else None
    kw = {} if tol is None else {"rtol": tol, "atol": tol}
    defect = dtype_defect(dt)
    ctx.tag(f"dtype:{dt}:{container}", len(tabs))
    compare(ctx, batch, "property", tabs, [n for n in names if n in rows[0] or n == "symmetric_extremal_dependence_index"],
            impl, rows, extra=extra, tol=tol, defect=defect)
    for n in names:
        a, b = impl[n], impl64[n]
        if isinstance(a, Exception) or isinstance(b, Exception):
            continue
        for i, t in enumerate(tabs):
            if core.close_ff(a[i], b[i], **kw):
                continue
            if rounding_sensitive(t, _base(n)) and not (math.isfinite(a[i]) and math.isfinite(b[i])):
                ctx.tag("rounding-sensitive-skipped")
                continue
            tags = {"method": n, "dtype": dt, "container": container}
            d = defect(t, n) if defect else None
            if d:
                tags["defect"] = d
            ctx.fail(batch, "property", n, "differs-from-float64-storage",
                     {"tp": t[0], "fp": t[1], "fn": t[2], "tn": t[3], "dtype": dt, "container": container},
                     observed=float(a[i]), expected=float(b[i]), tags=tags)
            if not d:
                break
    for al, base in ALIASES.items():
        a, b = impl.get(al), impl.get(base)
        if a is None or b is None or isinstance(a, Exception) or isinstance(b, Exception):
            continue
        for i, t in enumerate(tabs):
            if not core.close_ff(a[i], b[i], rtol=0, atol=0):
                ctx.fail(batch, "property", al, "alias-differs",
                         {"tp": t[0], "fp": t[1], "fn": t[2], "tn": t[3], "dtype": dt, "container": container},
                         observed=float(a[i]), expected=float(b[i]), tags={"method": al, "dtype": dt}, theorem="alias_" + al)
                break


def event_tables(f, o, per_row):
    """exact (tp, fp, fn, tn) of 2-d event value lists (None = NaN), one per row or one overall"""
    def tab(pairs):
        t = [0, 0, 0, 0]
        for x, y in pairs:
            if x is None or y is None:
                continue
            t[{(1, 1): 0, (1, 0): 1, (0, 1): 2, (0, 0): 3}[(x, y)]] += 1
        return tuple(t)
    if per_row:
        return [tab(zip(fr, orow)) for fr, orow in zip(f, o)]
    return [tab([p for fr, orow in zip(f, o) for p in zip(fr, orow)])]


def event_array(vals, dt):
    a = np.array([[float("nan") if v is None else v for v in row] for row in vals], dtype=float)
    return xr.DataArray(a.astype(dt), dims=["".join(["a"]), "".join(["b"])])


EVENT_REQS = [({}, False), ({"reduce_dims": ["b"]}, True), ({"preserve_dims": ["a"]}, True), ({"reduce_dims": "all"}, False),
              ({"reduce_dims": ["a", "b"]}, False), ({"preserve_dims": []}, False)]


def impl_events(f, o, fdt, odt, req, names):
    """every metric through BinaryContingencyManager(...).transform(**req) plus the standalone POD / POFD"""
    from scores.categorical import BinaryContingencyManager, probability_of_detection, probability_of_false_detection
    res = {}
    with np.errstate(all="ignore"):
        fx, ox = event_array(f, fdt), event_array(o, odt)
        try:
            m = BinaryContingencyManager(fx, ox).transform(**req)
        except Exception as ex:
            m = ex
        for n in names:
            try:
                if isinstance(m, Exception):
                    raise m
                res[n] = np.asarray(getattr(m, n)().values, dtype=float).reshape(-1)
            except Exception as ex:
                res[n] = ex
        for nm, fn in (("binary.probability_of_detection", probability_of_detection),
                       ("binary.probability_of_false_detection", probability_of_false_detection)):
            try:
                res[nm] = np.asarray(fn(fx, ox, **req).values, dtype=float).reshape(-1)
            except Exception as ex:
                res[nm] = ex
    return res


def gen_event_case(ctx, pool):
    rng = ctx.rng
    fdt = rng.choice(pool)
    odt = rng.choice([fdt, fdt, rng.choice(pool)])
    na = rng.randint(1, 3)
    nb = rng.randint(130, 300) if rng.random() < 0.15 else rng.randint(1, 7)     # > 127 events: counts exceed int8 / bool
    val = lambda dt, w: rng.choice(w + ([None] if np.dtype(dt).kind == "f" else []))
    f = [[val(fdt, [0, 1, 1]) for _ in range(nb)] for _ in range(na)]
    o = [[val(odt, [0, 1]) for _ in range(nb)] for _ in range(na)]
    if rng.random() < 0.3:          # boundary: forecast == observation on a row (no fp / fn)
        r = rng.randrange(na)
        f[r] = [x if np.dtype(fdt).kind == "f" or x is not None else 0 for x in o[r]]
    req, per_row = rng.choice(EVENT_REQS)
    return {"fcst": f, "obs": o, "fcst_dtype": fdt, "obs_dtype": odt, "request": req}, per_row


def run_event_case(ctx, batch, case, per_row, names, spec_of):
    f, o, fdt, odt, req = case["fcst"], case["obs"], case["fcst_dtype"], case["obs_dtype"], case["request"]
    tabs = event_tables(f, o, per_row)
    impl = impl_events(f, o, fdt, odt, req, names)
    rows = []
    for t in tabs:
        r = dict(spec_of(t))
        r["binary.probability_of_detection"] = r["probability_of_detection"]
        r["binary.probability_of_false_detection"] = r["false_alarm_rate"]
        rows.append(r)
    bad = {n: v for n, v in impl.items() if not isinstance(v, Exception) and len(v) != len(tabs)}
    for n, v in bad.items():
        ctx.fail(batch, "property", n, "result-shape", dict(case), observed=len(v), expected=len(tabs),
                 tags={"method": n, "fcst_dtype": fdt, "obs_dtype": odt})
        impl.pop(n)
    ctx.tag(f"event-dtype:{fdt}/{odt}")
    sel = [n for n in impl if n in rows[0] or n == "symmetric_extremal_dependence_index"]
    # event counts are sums of 0/1 values: the library computes them (and the metrics) in float64 whatever the storage
    compare(ctx, batch, "property", tabs, sel, impl, rows,
            extra={"fcst": f, "obs": o, "fcst_dtype": fdt, "obs_dtype": odt, "request": req, "per_row": per_row})
    for al, base in ALIASES.items():
        a, b = impl.get(al), impl.get(base)
        if a is None or b is None or isinstance(a, Exception) or isinstance(b, Exception):
            continue
        if not all(core.close_ff(x, y, rtol=0, atol=0) for x, y in zip(a, b)):
            ctx.fail(batch, "property", al, "alias-differs", dict(case), observed=a.tolist(), expected=b.tolist(),
                     tags={"method": al, "fcst_dtype": fdt, "obs_dtype": odt}, theorem="alias_" + al)


def spec_lookup(tables):
    uniq = sorted(set(tables))
    rows = core.run_driver("C09Spec", ops_for(uniq, "c09.spec"))
    d = dict(zip(uniq, rows))
    return lambda t: d[tuple(t)]


def oracle_dtypes(ctx, names, boost):
    rng = ctx.rng
    plan = []                                                      # (batch, dtype, container, tables)
    for dt in SIGNED_DT + FLOAT_DT + UNSIGNED_DT:
        batch = "dtype-counts-unsigned" if dt in UNSIGNED_DT else "dtype-counts"
        tabs = gen_dtype_tables(ctx, dt, boost)
        plan.append((batch, dt, "vector", tabs))
        fixed = [(0, 0, 0, 0), (3, 1, 2, 4), (1, 2, 2, 1), (0, 2, 1, 0)] + ([(200, 100, 100, 200)] if dt_limit(dt) >= 600 else [])
        for t in fixed + rng.sample(tabs, ctx.n(4, 30)):
            plan.append((batch, dt, "zero-d", [t]))
        if dt in ("int64", "float64"):
            for t in fixed + rng.sample(tabs, ctx.n(3, 20)):
                plan.append((batch, dt, "python-number", [t]))
    events = []
    for pool, batch in ((EVENT_DT, "dtype-events"), (EVENT_DT + UNSIGNED_DT + UNSIGNED_DT, "dtype-events-unsigned")):
        k = 0
        while k < ctx.n(40, 400) * (5 if boost else 1):
            case, per_row = gen_event_case(ctx, pool)
            uns = case["fcst_dtype"] in UNSIGNED_DT or case["obs_dtype"] in UNSIGNED_DT
            if uns != (batch == "dtype-events-unsigned"):
                continue
            k += 1
            events.append((batch, case, per_row))
    spec_of = spec_lookup([t for _, _, _, tabs in plan for t in tabs] +
                          [t for _, c, pr in events for t in event_tables(c["fcst"], c["obs"], pr)])
    for batch, dt, container, tabs in plan:
        impl = impl_all_dt(tabs, names, dt, container)
        impl64 = impl_all_dt(tabs, names, "float64", "vector")
        compare_dt(ctx, batch, tabs, names, impl, impl64, [spec_of(t) for t in tabs], dt, container)
    for batch, case, per_row in events:
        run_event_case(ctx, batch, case, per_row, names, spec_of)


# ------------------------------------------------------------------------------------------------ state across a sequence of calls
def oracle_sequences(ctx, n, prop="C09"):
    """STATE class: several operations on ONE BinaryContingencyManager, and several managers in one process.  A manager holds its
    counts; `transform` must neither change them nor remember an earlier request, and one manager must not see another's values.
    Every result is compared with the same request on a FRESH manager built from the same event arrays (and, for the counts, with a
    direct count of the event pairs), so nothing here depends on the library's own earlier output."""
    from scores.categorical import BinaryContingencyManager
    rng = ctx.rng
    for _ in range(n):
        na, nb = rng.choice([2, 3]), rng.choice([2, 3, 4])
        f = np.array([[rng.choice([0.0, 1.0, 1.0, np.nan if rng.random() < 0.3 else 0.0]) for _ in range(nb)] for _ in range(na)])
        o = np.array([[rng.choice([0.0, 1.0, 0.0, np.nan if rng.random() < 0.3 else 1.0]) for _ in range(nb)] for _ in range(na)])
        if rng.random() < 0.25:
            f[rng.randrange(na), :] = np.nan          # a kept cell with no valid pair at all
        mk = lambda: BinaryContingencyManager(xr.DataArray(f.copy(), dims=["aa", "bb"]), xr.DataArray(o.copy(), dims=["aa", "bb"]))
        desc = {"fcst_events": core.canon(f.tolist()), "obs_events": core.canon(o.tolist())}
        reqs = [{"preserve_dims": ["aa"]}, {"reduce_dims": ["aa"]}, {"reduce_dims": ["bb"]}, {"preserve_dims": ["bb"]}, {}, {"preserve_dims": "all"},
                {"reduce_dims": "all"}]
        seq = [rng.choice(reqs) for _ in range(rng.randint(2, 4))]
        seq.append(dict(seq[0]) if "preserve_dims" not in seq[0] else {"reduce_dims": seq[0]["preserve_dims"]})   # the same dims under the OTHER option
        ctx.case("manager-sequences", dict(desc, sequence=[str(r) for r in seq]))
        ctx.tag("sequence-length:%d" % len(seq))

        def snap(m):
            with np.errstate(all="ignore"):
                c = m.get_counts()
                vals = {k: (tuple(str(d) for d in v.dims), np.asarray(v.values, dtype=float).ravel().tolist()) for k, v in c.items()}
                vals["pod"] = (tuple(str(d) for d in m.probability_of_detection().dims), np.asarray(m.probability_of_detection().values, dtype=float).ravel().tolist())
                vals["sedi"] = (tuple(), np.asarray(m.symmetric_extremal_dependence_index().values, dtype=float).ravel().tolist())
            return vals

        def same(a, b):
            return a.keys() == b.keys() and all(a[k][0] == b[k][0] and len(a[k][1]) == len(b[k][1]) and
                                                 all(core.close_ff(x, y) for x, y in zip(a[k][1], b[k][1])) for k in a)
        try:
            m = mk()
            base = snap(m)
            # the manager's own counts are the direct counts of the valid pairs
            valid = ~(np.isnan(f) | np.isnan(o))
            direct = {"tp_count": float(((f == 1) & (o == 1) & valid).sum()), "fp_count": float(((f == 1) & (o == 0) & valid).sum()),
                      "fn_count": float(((f == 0) & (o == 1) & valid).sum()), "tn_count": float(((f == 0) & (o == 0) & valid).sum())}
            direct["total_count"] = sum(direct.values())
            for k, v in direct.items():
                if not (len(base[k][1]) == 1 and core.close_ff(base[k][1][0], v)):
                    ctx.fail("manager-sequences", "property", "BinaryContingencyManager", "counts-differ-from-direct-count", desc,
                             observed={k: base[k][1]}, expected={k: v}, tags={"step": "init"})
            for i, req in enumerate(seq):
                got = snap(m.transform(**req))
                ref = snap(mk().transform(**req))
                # direct counts of the valid pairs in every kept cell (0 for a cell without any valid pair)
                if "preserve_dims" in req:
                    keep = ["aa", "bb"] if req["preserve_dims"] == "all" else list(req["preserve_dims"])
                elif req.get("reduce_dims") in (None, "all"):
                    keep = []
                else:
                    keep = [d for d in ("aa", "bb") if d not in req["reduce_dims"]]
                axes = tuple(ax for ax, d in enumerate(("aa", "bb")) if d not in keep)
                maps = {"tp_count": (f == 1) & (o == 1) & valid, "fp_count": (f == 1) & (o == 0) & valid,
                        "fn_count": (f == 0) & (o == 1) & valid, "tn_count": (f == 0) & (o == 0) & valid, "total_count": valid}
                for kname, mp in maps.items():
                    # nothing reduced: the "count" of a pair is its 0/1 map value, NaN for an invalid pair (no sum is taken)
                    dv = np.asarray(mp.sum(axis=axes) if axes else np.where(valid, mp.astype(float), np.nan), dtype=float)
                    gd, gv = got[kname]
                    gv = np.asarray(gv, dtype=float).reshape([{"aa": na, "bb": nb}[d] for d in gd]) if gd else np.asarray(gv, dtype=float).reshape(())
                    if gd and list(gd) != keep:
                        gv = gv.T
                    if gv.shape != dv.shape or not all(core.close_ff(x, y) for x, y in zip(gv.ravel().tolist(), dv.ravel().tolist())):
                        ctx.fail("manager-sequences", "property", "BinaryContingencyManager.transform", "counts-differ-from-direct-count",
                                 dict(desc, request=str(req)), observed={kname: gv.ravel().tolist()}, expected={kname: dv.ravel().tolist()},
                                 tags={"step": i, "request": str(req), "count": kname})
                        break
                if not same(got, ref):
                    ctx.fail("manager-sequences", "property", "BinaryContingencyManager.transform", "result-depends-on-earlier-calls",
                             dict(desc, sequence=[str(r) for r in seq], step=i), observed=core.canon(got), expected=core.canon(ref),
                             tags={"step": i, "request": str(req)})
                    break
                after = snap(m)
                if not same(after, base):
                    ctx.fail("manager-sequences", "property", "BinaryContingencyManager.transform", "transform-changes-the-manager",
                             dict(desc, sequence=[str(r) for r in seq], step=i), observed=core.canon(after), expected=core.canon(base),
                             tags={"step": i, "request": str(req)})
                    break
        except Exception as ex:  # noqa: BLE001
            ctx.fail("manager-sequences", "property", "BinaryContingencyManager", "exception:" + core.exc_class(ex), desc,
                     observed=str(ex)[:200], expected="counts", tags={})


def oracle(ctx, boost):
    """the property itself on the implementation: documented formula (Lean Spec), aliases,
    swap symmetry, no exceptions, standalone POD/POFD = manager"""
    names = metric_names()
    oracle_sequences(ctx, ctx.n(40, 600) * (3 if boost else 1))
    tabs = tables_upto(ctx.n(10, 16) + (6 if boost else 0))
    rng = ctx.rng
    for _ in range(ctx.n(200, 3000) * (5 if boost else 1)):
        scale = rng.choice([30, 1000, 10 ** 6])
        tabs.append(tuple(rng.choice([0, rng.randint(0, scale)]) for _ in range(4)))
    impl = impl_all(tabs, names)
    spec = core.run_driver("C09Spec", ops_for(tabs, "c09.spec"))
    thm = {"accuracy": "accuracy_eq_doc", "probability_of_detection": "pod_eq_doc", "heidke_skill_score": "hss_eq_doc",
           "equitable_threat_score": "ets_eq_doc", "odds_ratio": "odds_ratio_eq_doc"}
    compare(ctx, "impl-vs-documented-formula", "property", tabs, [n for n in names if n in spec[0] or n == "symmetric_extremal_dependence_index"],
            impl, [dict(r, **{"probability_of_detection": r["probability_of_detection"], "false_alarm_rate": r["false_alarm_rate"]}) for r in spec], thm)
    # aliases
    for al, base in ALIASES.items():
        if al not in impl or base not in impl:
            ctx.notes.append(f"alias {al} or base {base} missing from the public class")
            continue
        a, b = impl[al], impl[base]
        if isinstance(a, Exception) or isinstance(b, Exception):
            continue
        for i, t in enumerate(tabs):
            if not core.close_ff(a[i], b[i], rtol=0, atol=0):
                ctx.fail("aliases", "property", al, "alias-differs", {"tp": t[0], "fp": t[1], "fn": t[2], "tn": t[3]},
                         observed=float(a[i]), expected=float(b[i]), tags={"method": al}, theorem="alias_" + al)
                break
    ctx.batches.setdefault("aliases", {"cases": 0, "failed": 0})["cases"] += len(ALIASES) * len(tabs)
    # swap symmetry
    swapped = [(t[0], t[2], t[1], t[3]) for t in tabs]
    impl_s = impl_all(swapped, names)
    b = ctx.batches.setdefault("swap-symmetry", {"cases": 0, "failed": 0})
    for n in SWAP_INVARIANT + ["pod<->success_ratio"]:
        if n == "pod<->success_ratio":
            x, y = impl["probability_of_detection"], impl_s["success_ratio"]
        else:
            x, y = impl[n], impl_s[n]
        if isinstance(x, Exception) or isinstance(y, Exception):
            continue
        for i, t in enumerate(tabs):
            b["cases"] += 1
            if not core.close_ff(x[i], y[i]):
                ctx.fail("swap-symmetry", "property", n, "swap-changes-value",
                         {"tp": t[0], "fp": t[1], "fn": t[2], "tn": t[3]}, observed=float(y[i]), expected=float(x[i]),
                         tags={"method": n}, theorem="swap_" + n)
                break
    # standalone POD / POFD agree with the manager on binary inputs
    from scores.categorical import BinaryContingencyManager, probability_of_detection, probability_of_false_detection
    b = ctx.batches.setdefault("standalone-pod-pofd", {"cases": 0, "failed": 0})
    for _ in range(ctx.n(60, 600)):
        n = rng.randint(1, 7)
        mdim = rng.randint(1, 3)
        f = np.array([[rng.choice([0.0, 1.0, 1.0, float("nan")]) for _ in range(n)] for _ in range(mdim)])
        o = np.array([[rng.choice([0.0, 1.0, float("nan")]) for _ in range(n)] for _ in range(mdim)])
        fx = xr.DataArray(f, dims=["a", "b"])
        ox = xr.DataArray(o, dims=["a", "b"])
        red = rng.choice([None, ["b"], ["a"], ["a", "b"]])
        shape_kind = rng.choice(["same", "same", "obs-extra-dim", "fcst-extra-dim"])
        if shape_kind != "same":
            # one side carries a dimension the other lacks (broadcast): both entry points must treat it alike
            extra = xr.DataArray([rng.choice([0.0, 1.0, float("nan")]) for _ in range(2)], dims=["s"])
            flip = lambda base: xr.where(extra == 1, 1 - base, base).where(extra.notnull())
            if shape_kind == "obs-extra-dim":
                ox = flip(ox)
            else:
                fx = flip(fx)
            red = rng.choice([None, ["b"], ["a", "b"], ["s"], ["a", "b", "s"], "all"])
        ctx.tag("standalone:" + shape_kind)
        keep_all = None
        if rng.random() < 0.3:
            alld = sorted(set(fx.dims) | set(ox.dims))
            keep_all = rng.choice([{"preserve_dims": "all"}, {"preserve_dims": alld}, {"reduce_dims": []}])
            ctx.tag("standalone:keep-all")
        case_desc = {"fcst": core.canon(np.asarray(fx.values).tolist()), "fcst_dims": list(fx.dims),
                     "obs": core.canon(np.asarray(ox.values).tolist()), "obs_dims": list(ox.dims), "reduce_dims": red, "keep_all": keep_all}
        b["cases"] += 1
        ctx.evaluations += 1
        pairs = []
        for nm, fn in (("probability_of_detection", probability_of_detection),
                       ("probability_of_false_detection", probability_of_false_detection)):
            try:
                with np.errstate(all="ignore"):
                    req = {"reduce_dims": red}
                    if keep_all is not None:
                        req = keep_all       # nothing reduced: per-point tables (preserve 'all', every dim named, or reduce [])
                    man = BinaryContingencyManager(fx, ox).transform(**req)
                    pairs.append((nm, fn(fx, ox, **req), getattr(man, nm)()))
            except Exception as ex:       # both entry points accept these inputs on the unchanged tree
                ctx.fail("standalone-pod-pofd", "property", "binary." + nm, "exception:" + core.exc_class(ex), case_desc,
                         observed=str(ex)[:200], expected="the manager's value", tags={"method": nm})
        for nm, s, mres in pairs:
            sv = np.asarray(s.transpose(*sorted(s.dims)).values, dtype=float).ravel()
            mv = np.asarray(mres.transpose(*sorted(mres.dims)).values, dtype=float).ravel()
            if sorted(s.dims) != sorted(mres.dims):
                sv = np.array([float("inf")])      # different result dimensions: certainly not the same answer
            if sv.shape != mv.shape or not all(core.close_ff(x, y) for x, y in zip(sv, mv)):
                ctx.fail("standalone-pod-pofd", "property", "binary." + nm, "standalone-differs",
                         {"fcst": core.canon(np.asarray(fx.values).tolist()), "fcst_dims": list(fx.dims), "obs": core.canon(np.asarray(ox.values).tolist()),
                          "obs_dims": list(ox.dims), "reduce_dims": red}, observed=sv.tolist(), expected=mv.tolist(),
                         tags={"method": nm})
    # storage dtypes of the counts / of the event arrays
    oracle_dtypes(ctx, names, boost)


def replay(ctx, payload):
    case = payload["case"]
    site = payload.get("site")
    if "fcst_dtype" in case:
        names = metric_names()
        ctx2 = core.Ctx("C09", "quick", 0)
        c = {k: case[k] for k in ("fcst", "obs", "fcst_dtype", "obs_dtype", "request")}
        per_row = case.get("per_row", dict((repr(r), p) for r, p in EVENT_REQS).get(repr(c["request"]), False))
        tabs = event_tables(c["fcst"], c["obs"], per_row)
        run_event_case(ctx2, "replay", c, per_row, names, spec_lookup(tabs))
        return any(f["site"] == site for f in ctx2.failures) if site else bool(ctx2.failures)
    if "dtype" in case:
        t = (int(case["tp"]), int(case["fp"]), int(case["fn"]), int(case["tn"]))
        names = metric_names()
        ctx2 = core.Ctx("C09", "quick", 0)
        impl = impl_all_dt([t], names, case["dtype"], case["container"])
        impl64 = impl_all_dt([t], names, "float64", "vector")
        compare_dt(ctx2, "replay", [t], names, impl, impl64, [spec_lookup([t])(t)], case["dtype"], case["container"])
        return any(f["site"] == site for f in ctx2.failures) if site else bool(ctx2.failures)
    if "tp" in case:
        t = (int(case["tp"]), int(case["fp"]), int(case["fn"]), int(case["tn"]))
        names = metric_names()
        impl = impl_all([t], names)
        spec = core.run_driver("C09Spec", ops_for([t], "c09.spec"))
        ctx2 = core.Ctx("C09", "quick", 0)
        compare(ctx2, "replay", "property", [t], [n for n in names if n in spec[0] or n == "symmetric_extremal_dependence_index"], impl, spec)
        site = payload.get("site")
        if site in ALIASES and not isinstance(impl[site], Exception):
            if not core.close_ff(impl[site][0], impl[ALIASES[site]][0], 0, 0):
                return True
        if payload.get("signature") == "swap-changes-value":
            s = impl_all([(t[0], t[2], t[1], t[3])], names)
            n = site
            x, y = (impl["probability_of_detection"], s["success_ratio"]) if n.startswith("pod<->") else (impl[n], s[n])
            return not core.close_ff(x[0], y[0])
        return any(f["site"] == site for f in ctx2.failures) if site else bool(ctx2.failures)
    return True
