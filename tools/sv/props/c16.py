"""C16 — FSS equals the sliding-window definition and aggregates by components."""
from __future__ import annotations

import itertools
import math
import warnings

import numpy as np
import xarray as xr

from sv import core

PROPERTY = "C16"
GEN = ["Fss"]
PROPS = ["ScoresVerif/Props/C16.lean"]
DRIVER_DEPS = ["ScoresVerif.Driver.C16"]
LEVEL = "proof"
TRUSTED = ["numpy cumsum / fancy indexing / nanmean and xarray.apply_ufunc(vectorize=True) behave as modelled in "
           "Model/Fss.lean (tables, running sums, clipped index vectors) — compared on every run (tie X)",
           "gather_dimensions is modelled by its documented rule (reduce set = request minus spatial dims)"]
ASSUMPTIONS = ["field values and thresholds are small dyadic numbers / NaN / inf, so comparisons are exact; window counts are "
               "integers (exact in float64 far beyond the sizes used); quotients compared to 1e-9",
               "fcst and obs carry the same coordinate labels in the same stored order (F13 belongs to C04); no dask inputs",
               "float rounding, overflow and signed zero are not modelled"]
MANIFEST = dict(
    level="proof",
    text="Kernel-checked Lean theorems, for all field shapes and windows, about a model of the FSS pipeline whose scalar tails "
         "(compute_fss, the aggregation step/tail, the order of the component triple) are regenerated from the source on every run: "
         "cumsum-cumsum with the zero row/column is the summed-area table; without padding the image has (H-h+1)(W-w+1) entries, each "
         "the direct window count; with zero padding the clipped corners are the direct counts on the field extended by floor(h/2) "
         "before and h-floor(h/2) after; the score is 1 - sum(po-pf)^2/(sum po^2 + sum pf^2) and 0 for a zero denominator, lies in [0,1] "
         "without the clamp, is symmetric, is 1 for identical fields with an event, NaN cells are non-events, the binary entry is "
         "thresholding, and several fields aggregate by the pooled (mean) three sums with a 2-field example differing from the mean of "
         "scores.  The padded clause of the property holds for even window dimensions (fss_pad_partial) and fails for odd ones "
         "(fss_pad_counterexample, known finding F5).  Tied to the code by the translator plus an exhaustive/random correspondence on "
         "scores, images and components, and an independent direct-count oracle (Lean Spec) on fss_2d_single_field / fss_2d / fss_2d_binary.",
    note="Trusted: Lean kernel; propext/Classical.choice/Quot.sound; py2lean + tools/gen/Fss.py; SV.Fl; the hand model of numpy cumsum / "
         "clip / fancy indexing / nanmean and of xarray.apply_ufunc(vectorize) + gather_dimensions (compared, not proved); harness "
         "tolerance 1e-9 on dyadic inputs.  Not modelled: dask inputs, differently ordered coordinates (F13, C04), non-boolean input of "
         "fss_2d_binary(check_boolean=False), float rounding.  Known finding F5 (odd window + zero padding) is reported as KNOWN-FINDING, "
         "only when the implementation equals the direct count with the code's asymmetric extension.",
    technique="Lean 4 theorems over a hand model + translator-regenerated scalar tails; exhaustive small-shape differential correspondence; "
              "exact direct-count oracle",
    design="6/C16")
RULE = ("exhaustive over all shapes up to 3x4 (quick) / 4x4 (thorough) x all windows x both paddings with several field pairs "
        "each, all binary fields of shapes up to 3x3 (thorough; 2x3 quick), random shapes up to 7x9, four operators, NaN cells, "
        "multi-field arrays with extra dims and every reduction; distinct = distinct canonical case; non-trivial = at least "
        "one event in either field")

OPS = {"gt": np.greater, "ge": np.greater_equal, "lt": np.less, "le": np.less_equal}
F5_TAGS = {"defect": "F5", "zero_padding": True, "odd_window": True}
F5_SITE = "fss_2d_single_field"
F5_SIG = "padding-asymmetric"

# the recorded witness of F5 (always the first case of the oracle): 3x3 fields, 3x3 window, zero padding
F5_WITNESS = dict(kind="single", f=[[1.0, 0.0, 0.0], [0.0, 0.0, 0.0], [0.0, 0.0, 0.0]],
                  o=[[0.0, 0.0, 0.0], [0.0, 0.0, 1.0], [0.0, 0.0, 0.0]], thr=0.5, op="gt", h=3, w=3, pad=True)


# ----------------------------------------------------------------------------- helpers
def mat(a):
    return [[core.fl_str(float(v)) for v in row] for row in np.asarray(a, dtype=float)]


def arr(m):
    return np.array([[float(core.parse_fl(v)) if isinstance(v, str) else float(v) for v in row] for row in m], dtype=float)


def case_json(c):
    d = dict(c)
    for k in ("f", "o"):
        if k in d:
            d[k] = mat(d[k])
    if "fields" in d:
        d["fields"] = [[mat(f), mat(o)] for f, o in d["fields"]]
    if "thr" in d:
        d["thr"] = core.fl_str(float(d["thr"]))
    return d


def impl_single(c):
    from scores.spatial import fss_2d_single_field
    with np.errstate(all="ignore"), warnings.catch_warnings():
        warnings.simplefilter("ignore")
        return float(fss_2d_single_field(np.array(c["f"], dtype=float), np.array(c["o"], dtype=float),
                                         event_threshold=c["thr"], window_size=(c["h"], c["w"]),
                                         zero_padding=c["pad"], threshold_operator=OPS[c["op"]]))


def impl_internals(c):
    """(img_f, img_o, comps) of the numpy backend, or None when the internals are not reachable"""
    try:
        from scores.fast.fss.fss_numpy import FssNumpy
        from scores.utils import NumpyThresholdOperator
        b = FssNumpy(np.array(c["f"], dtype=float), np.array(c["o"], dtype=float), event_threshold=c["thr"],
                     window_size=(c["h"], c["w"]), zero_padding=c["pad"],
                     threshold_operator=NumpyThresholdOperator(OPS[c["op"]]))
        with np.errstate(all="ignore"):
            comps = b.compute_fss_decomposed()
        return (np.asarray(b._fcst_img, dtype=float).ravel(), np.asarray(b._obs_img, dtype=float).ravel(),
                [float(x) for x in comps.item()])
    except (AttributeError, ImportError, TypeError):
        return None


def model_op(c, fields=None, scalar=False, img=False, op=None):
    fields = fields if fields is not None else [(c["f"], c["o"])]
    H, W = np.asarray(fields[0][0]).shape
    return {"op": "c16.model", "args": {"fields": [[mat(f), mat(o)] for f, o in fields], "H": int(H), "W": int(W),
                                        "h": int(c["h"]), "w": int(c["w"]), "pad": bool(c["pad"]), "op": op or c["op"],
                                        "thr": core.fl_str(float(c["thr"])), "scalar": bool(scalar), "img": bool(img)}}


def spec_op(c, ext, fields=None, op=None, thr=None):
    fields = fields if fields is not None else [(c["f"], c["o"])]
    H, W = np.asarray(fields[0][0]).shape
    return {"op": "c16.spec", "args": {"fields": [[mat(f), mat(o)] for f, o in fields], "H": int(H), "W": int(W),
                                       "h": int(c["h"]), "w": int(c["w"]), "op": op or c["op"],
                                       "thr": core.fl_str(float(c["thr"] if thr is None else thr)), "ext": ext}}


def odd_pad(c):
    return bool(c["pad"]) and (c["h"] % 2 == 1 or c["w"] % 2 == 1)


def prop_ext(c):
    return "sym" if c["pad"] else "none"


def n_events(c, f):
    with np.errstate(all="ignore"):
        return int(np.sum(OPS[c["op"]](np.asarray(f, dtype=float), c["thr"])))


# ----------------------------------------------------------------------------- generators
VALS = [-1.0, 0.0, 0.5, 1.0, 1.5, 2.0, 3.0]
THRS = [0.0, 0.5, 1.0, 1.5, 2.0, -1.0]


def gen_field(rng, H, W, thr, style=None):
    style = style or rng.choice(["pool", "pool", "binary", "sparse", "dense", "empty", "full"])
    if style == "binary":
        a = np.array([[float(rng.random() < 0.5) for _ in range(W)] for _ in range(H)])
    elif style == "sparse":
        a = np.full((H, W), thr - 1.0)
        for _ in range(rng.randint(1, 2)):
            a[rng.randrange(H), rng.randrange(W)] = thr + 1.0
    elif style == "dense":
        a = np.full((H, W), thr + 1.0)
        for _ in range(rng.randint(1, 2)):
            a[rng.randrange(H), rng.randrange(W)] = thr - 0.5
    elif style == "empty":
        a = np.full((H, W), thr)      # tie with the threshold everywhere
    elif style == "full":
        a = np.full((H, W), thr + 0.25)
    else:
        a = np.array([[rng.choice(VALS + [thr, thr]) for _ in range(W)] for _ in range(H)])
    r = rng.random()
    if r < 0.25:
        for _ in range(rng.randint(1, max(1, H * W // 3))):
            a[rng.randrange(H), rng.randrange(W)] = np.nan
    elif r < 0.30:
        a[rng.randrange(H), rng.randrange(W)] = rng.choice([np.inf, -np.inf])
    return a


def gen_pair(rng, H, W, thr):
    f = gen_field(rng, H, W, thr)
    r = rng.random()
    if r < 0.25:
        o = f.copy()
    elif r < 0.45:
        o = f.copy()
        for _ in range(rng.randint(1, 2)):
            o[rng.randrange(H), rng.randrange(W)] = rng.choice(VALS)
    elif r < 0.55:
        o = f[::-1, ::-1].copy()
    else:
        o = gen_field(rng, H, W, thr)
    return f, o


def gen_single(rng, H, W, h, w, pad, op=None):
    thr = rng.choice(THRS)
    f, o = gen_pair(rng, H, W, thr)
    return dict(kind="single", f=f.tolist(), o=o.tolist(), thr=thr, op=op or rng.choice(list(OPS)), h=h, w=w, pad=pad)


def configs(maxH, maxW):
    for H in range(1, maxH + 1):
        for W in range(1, maxW + 1):
            for h in range(1, H + 1):
                for w in range(1, W + 1):
                    for pad in (False, True):
                        yield H, W, h, w, pad


def single_stream(ctx, per_config, n_random, boost=False):
    rng = ctx.rng
    mh, mw = (4, 4) if ctx.thorough else (3, 4)
    cases = []
    k = 0
    for (H, W, h, w, pad) in configs(mh, mw):
        for _ in range(per_config):
            cases.append(gen_single(rng, H, W, h, w, pad, op=list(OPS)[k % 4]))
            k += 1
    for _ in range(n_random * (5 if boost else 1)):
        H = rng.randint(1, 7)
        W = rng.randint(1, 9)
        h = rng.choice([1, H, rng.randint(1, H), rng.randint(1, H)])
        w = rng.choice([1, W, rng.randint(1, W), rng.randint(1, W)])
        if rng.random() < 0.4:      # even windows (the padded mode the property holds for) are rare among small shapes
            h = 2 * rng.randint(1, H // 2) if H >= 2 else h
            w = 2 * rng.randint(1, W // 2) if W >= 2 else w
        cases.append(gen_single(rng, H, W, h, w, rng.random() < 0.5))
    return cases


def binary_fields(H, W):
    for bits in itertools.product((0.0, 1.0), repeat=H * W):
        yield np.array(bits).reshape(H, W)


def binary_stream(ctx):
    """all binary fields of small shapes x all windows x both paddings; the partner field is the complement,
    the field itself shifted, or all ones (the image of a field does not depend on its partner)"""
    shapes = [(H, W) for H in range(1, 4) for W in range(1, 4)] if ctx.thorough else \
             [(H, W) for H in range(1, 3) for W in range(1, 4)]
    out = []
    for (H, W) in shapes:
        for i, f in enumerate(binary_fields(H, W)):
            partner = [1.0 - f, np.roll(f, 1, axis=1), np.ones((H, W)), f][i % 4]
            for h in range(1, H + 1):
                for w in range(1, W + 1):
                    for pad in (False, True):
                        out.append(dict(kind="single", f=f.tolist(), o=partner.tolist(), thr=0.5, op="gt", h=h, w=w, pad=pad))
    ctx.exhaustive.append(f"all binary fields of shapes {shapes[0]}..{shapes[-1]} x all windows x both paddings ({len(out)} cases)")
    return out


EXTRA = ["t", "lead", "m"]


def gen_multi(rng, binary=False):
    """a case for fss_2d / fss_2d_binary: extra dims, broadcasting between fcst and obs, a reduction request"""
    H = rng.randint(1, 4)
    W = rng.randint(1, 4)
    h = rng.randint(1, H)
    w = rng.randint(1, W)
    extras = rng.sample(EXTRA, rng.randint(0, 3))
    sizes = {d: rng.randint(1, 3) for d in extras}
    fd = [d for d in extras if rng.random() < 0.8]
    od = [d for d in extras if (d not in fd) or rng.random() < 0.6]
    thr = rng.choice(THRS)
    if binary:
        thr = 0.5

    def build(dims):
        shape = [sizes[d] for d in dims] + [H, W]
        n = int(np.prod(shape[:-2])) if dims else 1
        fl = [gen_field(rng, H, W, thr, style="binary" if binary else None) for _ in range(n)]
        if binary:
            fl = [np.nan_to_num(x, nan=0.0, posinf=1.0, neginf=0.0) for x in fl]
        return np.array(fl).reshape(shape)

    fa = build(fd)
    oa = build(od)
    if fd == od and rng.random() < 0.3:
        oa = fa.copy()
    # stored dimension order: spatial dims anywhere
    f_order = fd + ["y", "x"]
    o_order = od + ["y", "x"]
    if rng.random() < 0.5:
        rng.shuffle(f_order)
        if rng.random() < 0.5:
            o_order = [d for d in f_order if d in o_order] + [d for d in o_order if d not in f_order]
    mode = rng.choice(["none", "reduce", "reduce", "preserve", "preserve", "reduce_all", "preserve_all"])
    req = None
    if mode == "reduce":
        req = rng.sample(extras, rng.randint(0, len(extras))) if extras else []
        if rng.random() < 0.3:
            req = req + rng.sample(["y", "x"], rng.randint(1, 2))
        if req == [] and rng.random() < 0.5:
            mode, req = "none", None       # an empty reduce list: covered below as its own mode
    elif mode == "preserve":
        req = rng.sample(extras, rng.randint(0, len(extras))) if extras else []
    return dict(kind="multi", binary=binary, H=H, W=W, h=h, w=w, pad=rng.random() < 0.5, thr=thr,
                op="gt" if binary else rng.choice(list(OPS)), sizes=sizes, fdims=f_order, odims=o_order,
                fdata=np.transpose(fa, [(fd + ["y", "x"]).index(d) for d in f_order]).tolist(),
                odata=np.transpose(oa, [(od + ["y", "x"]).index(d) for d in o_order]).tolist(),
                mode=mode, req=req)


def multi_reduce_set(c):
    """the documented rule: which non-spatial dims are aggregated over"""
    extras = sorted(set(c["fdims"]) | set(c["odims"]) - {"y", "x"})
    extras = [d for d in extras if d not in ("y", "x")]
    m = c["mode"]
    if m in ("none", "reduce_all"):
        return extras
    if m == "preserve_all":
        return []
    if m == "reduce":
        return [d for d in extras if d in c["req"]]
    return [d for d in extras if d not in c["req"]]


def multi_groups(c):
    """{index tuple over preserved dims -> list of (fcst field, obs field)} by the rule of the property"""
    fa = np.array(c["fdata"], dtype=float).reshape([c["sizes"].get(d, c["H"] if d == "y" else c["W"]) for d in c["fdims"]])
    oa = np.array(c["odata"], dtype=float).reshape([c["sizes"].get(d, c["H"] if d == "y" else c["W"]) for d in c["odims"]])
    fx = xr.DataArray(fa, dims=c["fdims"])
    ox = xr.DataArray(oa, dims=c["odims"])
    red = multi_reduce_set(c)
    extras = [d for d in sorted(set(c["fdims"]) | set(c["odims"])) if d not in ("y", "x")]
    keep = [d for d in extras if d not in red]
    groups = {}
    for kidx in itertools.product(*[range(c["sizes"][d]) for d in keep]):
        sel = dict(zip(keep, kidx))
        lst = []
        for ridx in itertools.product(*[range(c["sizes"][d]) for d in red]):
            s = dict(sel, **dict(zip(red, ridx)))
            f2 = fx.isel({d: i for d, i in s.items() if d in fx.dims}).transpose("y", "x").values
            o2 = ox.isel({d: i for d, i in s.items() if d in ox.dims}).transpose("y", "x").values
            lst.append((f2, o2))
        groups[kidx] = lst
    return fx, ox, keep, red, groups


def impl_multi(c, fx, ox):
    from scores.spatial import fss_2d, fss_2d_binary
    kw = {}
    if c["mode"] == "reduce":
        kw["reduce_dims"] = ["".join([d[:1], d[1:]]) for d in c["req"]]
    elif c["mode"] == "preserve":
        kw["preserve_dims"] = ["".join([d[:1], d[1:]]) for d in c["req"]]
    elif c["mode"] == "reduce_all":
        kw["reduce_dims"] = "all"
    elif c["mode"] == "preserve_all":
        kw["preserve_dims"] = "all"
    sd = ("".join(["y"]), "".join(["", "x"]))
    with np.errstate(all="ignore"), warnings.catch_warnings():
        warnings.simplefilter("ignore")
        if c["binary"]:
            return fss_2d_binary(fx.astype(bool), ox.astype(bool), window_size=(c["h"], c["w"]), spatial_dims=sd,
                                 zero_padding=c["pad"], **kw)
        return fss_2d(fx, ox, event_threshold=c["thr"], window_size=(c["h"], c["w"]), spatial_dims=sd,
                      zero_padding=c["pad"], threshold_operator=OPS[c["op"]], **kw)


# ----------------------------------------------------------------------------- correspondence (tie X)
def correspondence(ctx):
    per = ctx.n(3, 5)
    cases = single_stream(ctx, per, ctx.n(400, 3000))
    ctx.exhaustive.append(f"all shapes <= {'4x4' if ctx.thorough else '3x4'} x all windows x both paddings x {per} field pairs")
    cases += binary_stream(ctx)
    ops = [model_op(c, img=True) for c in cases]
    res = core.run_driver("C16", ops)
    internals_missing = 0
    for c, m in zip(cases, res):
        batch = "impl-vs-model-single"
        nt = n_events(c, c["f"]) + n_events(c, c["o"]) > 0
        ctx.case(batch, case_json(c), nontrivial=nt)
        ctx.tag("pad" if c["pad"] else "nopad")
        ctx.tag("odd-window" if (c["h"] % 2 or c["w"] % 2) else "even-window")
        try:
            v = impl_single(c)
        except Exception as ex:
            ctx.fail(batch, "correspondence", "fss_2d_single_field", "exception", case_json(c), observed=core.exc_class(ex),
                     expected=m.get("single"))
            continue
        tags = {"pad": c["pad"], "op": c["op"]}
        if "err" in m or not core.close(v, m["single"][0]):
            ctx.fail(batch, "correspondence", "fss_2d_single_field", "value", case_json(c), observed=v, expected=m, tags=tags)
            continue
        it = impl_internals(c)
        if it is None:
            internals_missing += 1
            continue
        img_f, img_o, comps = it
        if len(img_f) != len(m["img_f"]) or any(abs(a - b) > 1e-9 for a, b in zip(img_f, m["img_f"])) \
                or len(img_o) != len(m["img_o"]) or any(abs(a - b) > 1e-9 for a, b in zip(img_o, m["img_o"])):
            ctx.fail(batch, "correspondence", "_compute_integral_field", "image", case_json(c),
                     observed={"img_f": img_f.tolist(), "img_o": img_o.tolist()},
                     expected={"img_f": m["img_f"], "img_o": m["img_o"]}, tags=tags)
        elif not all(core.close(a, b) for a, b in zip(comps, m["comps"][0])):
            ctx.fail(batch, "correspondence", "_compute_fss_components", "components", case_json(c), observed=comps,
                     expected=m["comps"][0], tags=tags)
    if internals_missing:
        ctx.notes.append(f"backend internals not reachable for {internals_missing} cases (score-level comparison only)")

    # multi-field arrays: fss_2d / fss_2d_binary vs model aggregate
    mcases = [gen_multi(ctx.rng, binary=(i % 4 == 3)) for i in range(ctx.n(150, 1200))]
    run_multi(ctx, mcases, "impl-vs-model-multi", "correspondence")

    # malformed stream: windows that do not fit / are empty must raise a ValueError (DimensionError), as the model says
    from scores.spatial import fss_2d_single_field
    bad = []
    for _ in range(ctx.n(12, 60)):
        H, W = ctx.rng.randint(1, 4), ctx.rng.randint(1, 4)
        h, w = ctx.rng.choice([(0, 1), (1, 0), (H + 1, 1), (1, W + 1), (H + 1, W + 1), (0, 0)])
        bad.append(dict(kind="single", f=np.ones((H, W)).tolist(), o=np.ones((H, W)).tolist(), thr=0.5, op="gt", h=h, w=w,
                        pad=ctx.rng.random() < 0.5))
    mres = core.run_driver("C16", [model_op(c) for c in bad])
    for c, m in zip(bad, mres):
        ctx.case("malformed-window", case_json(c), nontrivial=False)
        try:
            v = impl_single(c)
            got = "value"
        except Exception as ex:
            got = core.exc_class(ex)
        exp = m.get("err", "value")
        if got != exp:
            ctx.fail("malformed-window", "correspondence", "fss_2d_single_field", "window-guard", case_json(c), observed=got,
                     expected=exp)


def run_multi(ctx, mcases, batch, kind):
    """fss_2d / fss_2d_binary: impl vs model aggregate (kind='correspondence') or vs the spec (kind='property')"""
    prepared = []
    ops = []
    for c in mcases:
        fx, ox, keep, red, groups = multi_groups(c)
        prepared.append((c, fx, ox, keep, red, groups))
        for kidx, lst in groups.items():
            if kind == "correspondence":
                ops.append(model_op(c, fields=lst, scalar=(len(red) == 0), op="left_identity" if c["binary"] else None))
            else:
                o, t = ("gt", 0.5) if c["binary"] else (c["op"], c["thr"])
                ops.append(spec_op(c, prop_ext(c), fields=lst, op=o, thr=t))
                if odd_pad(c):
                    ops.append(spec_op(c, "code", fields=lst, op=o, thr=t))
    res = core.run_driver("C16", ops)
    k = 0
    for (c, fx, ox, keep, red, groups) in prepared:
        cj = {kk: vv for kk, vv in c.items()}
        ctx.case(batch, cj, nontrivial=True)
        ctx.tag("multi-" + c["mode"])
        site = "fss_2d_binary" if c["binary"] else "fss_2d"
        try:
            r = impl_multi(c, fx, ox)
        except Exception as ex:
            ctx.fail(batch, kind, site, "exception", cj, observed=core.exc_class(ex) + ": " + str(ex)[:200], expected="a value")
            k += len(groups) * (2 if (kind == "property" and odd_pad(c)) else 1)
            continue
        if set(r.dims) != set(keep):
            ctx.fail(batch, kind, site, "dims", cj, observed=list(r.dims), expected=keep, tags={"mode": c["mode"]})
            k += len(groups) * (2 if (kind == "property" and odd_pad(c)) else 1)
            continue
        r = r.transpose(*keep)
        bad_val, bad_f5 = None, None
        for kidx in groups:
            v = float(r.values[kidx]) if keep else float(r.values)
            m = res[k]
            k += 1
            mcode = None
            if kind == "property" and odd_pad(c):
                mcode = res[k]
                k += 1
            if not core.close(v, m["agg"]):
                if mcode is not None and core.close(v, mcode["agg"]):
                    bad_f5 = bad_f5 or (kidx, v, m["agg"])
                else:
                    bad_val = bad_val or (kidx, v, m["agg"])
        if bad_val:
            ctx.fail(batch, kind, site, "value", cj, observed={"index": list(bad_val[0]), "value": bad_val[1]},
                     expected=bad_val[2], tags={"mode": c["mode"], "pad": c["pad"]})
        elif bad_f5:
            ctx.fail(batch, kind, F5_SITE, F5_SIG, cj, observed={"index": list(bad_f5[0]), "value": bad_f5[1]},
                     expected=bad_f5[2], tags=dict(F5_TAGS, entry=site))


# ----------------------------------------------------------------------------- the property oracle
def flipped(c, how):
    f = np.array(c["f"], dtype=float)
    o = np.array(c["o"], dtype=float)
    d = dict(c)
    if how == "flip":
        d["f"], d["o"] = f[::-1, ::-1].tolist(), o[::-1, ::-1].tolist()
    elif how == "flipud":
        d["f"], d["o"] = f[::-1, :].tolist(), o[::-1, :].tolist()
    elif how == "transpose":
        d["f"], d["o"] = f.T.tolist(), o.T.tolist()
        d["h"], d["w"] = c["w"], c["h"]
    elif how == "swap":
        d["f"], d["o"] = c["o"], c["f"]
    elif how == "nan-to-nonevent":
        # a NaN cell is a non-event: replacing it by a value that is no event changes nothing
        non = {"gt": c["thr"] - 1.0, "ge": c["thr"] - 1.0, "lt": c["thr"] + 1.0, "le": c["thr"] + 1.0}[c["op"]]
        d["f"] = np.where(np.isnan(f), non, f).tolist()
        d["o"] = np.where(np.isnan(o), non, o).tolist()
    return d


def check_singles(ctx, cases, batch="single-vs-window-count", relations=True):
    """the property on fss_2d_single_field: value = direct window count (Lean Spec, exact), range, symmetry,
    identical fields, invariances.  Returns the number of failures recorded."""
    n0 = len(ctx.failures)
    rng = ctx.rng
    ops = []
    plan = []
    for c in cases:
        entry = {"c": c, "spec": len(ops)}
        ops.append(spec_op(c, prop_ext(c)))
        if odd_pad(c):
            entry["code"] = len(ops)
            ops.append(spec_op(c, "code"))
        rel = []
        if relations:
            hows = ["swap"] + rng.sample(["flip", "flipud", "transpose", "nan-to-nonevent"], 2)
            for how in hows:
                d = flipped(c, how)
                e2 = {"how": how, "c": d}
                if odd_pad(c) and how in ("flip", "flipud", "transpose"):
                    e2["code"] = len(ops)
                    ops.append(spec_op(d, "code"))
                rel.append(e2)
        entry["rel"] = rel
        plan.append(entry)
    res = core.run_driver("C16", ops)
    for e in plan:
        c = e["c"]
        cj = case_json(c)
        nev = n_events(c, c["f"]) + n_events(c, c["o"])
        ctx.case(batch, cj, nontrivial=nev > 0)
        ctx.tag("oracle-" + ("pad" if c["pad"] else "nopad") + ("-odd" if (c["h"] % 2 or c["w"] % 2) else "-even"))
        base_tags = {"pad": c["pad"], "op": c["op"], "odd_window": bool(c["h"] % 2 or c["w"] % 2)}
        try:
            v = impl_single(c)
        except Exception as ex:
            ctx.fail(batch, "property", "fss_2d_single_field", "exception", cj, observed=core.exc_class(ex) + ": " + str(ex)[:200],
                     expected=res[e["spec"]]["single"][0], tags=base_tags)
            continue
        spec = res[e["spec"]]["single"][0]
        code = res[e["code"]]["single"][0] if "code" in e else None
        is_f5 = code is not None and core.close(v, code)
        if not core.close(v, spec):
            if is_f5:
                ctx.fail(batch, "property", F5_SITE, F5_SIG, cj, observed=v, expected=spec, tags=dict(F5_TAGS, entry="fss_2d_single_field"),
                         theorem="fss_pad_counterexample")
            else:
                ctx.fail(batch, "property", "fss_2d_single_field", "value-differs-from-window-count", cj, observed=v, expected=spec,
                         tags=base_tags, theorem="fss_nopad_eq_spec" if not c["pad"] else "fss_pad_partial")
            continue
        if not (0.0 <= v <= 1.0):
            ctx.fail(batch, "property", "fss_2d_single_field", "out-of-range", cj, observed=v, expected="[0,1]", tags=base_tags)
        same = np.array_equal(np.nan_to_num(np.array(c["f"], dtype=float), nan=12345.0), np.nan_to_num(np.array(c["o"], dtype=float), nan=12345.0))
        if same and n_events(c, c["f"]) > 0 and not core.close(v, core.Fraction(1)):
            ctx.fail(batch, "property", "fss_2d_single_field", "identical-fields-not-1", cj, observed=v, expected=1, tags=base_tags)
        for r in e["rel"]:
            try:
                v2 = impl_single(r["c"])
            except Exception as ex:
                ctx.fail(batch, "property", "fss_2d_single_field", "exception", case_json(r["c"]), observed=core.exc_class(ex), expected=v,
                         tags=base_tags)
                continue
            if core.close_ff(v, v2):
                continue
            if "code" in r and is_f5 and core.close(v2, res[r["code"]]["single"][0]):
                ctx.fail(batch, "property", F5_SITE, F5_SIG, cj, observed={"value": v, r["how"]: v2}, expected="equal",
                         tags=dict(F5_TAGS, entry="fss_2d_single_field", relation=r["how"]), theorem="fss_pad_counterexample")
            else:
                ctx.fail(batch, "property", "fss_2d_single_field", "not-invariant-under-" + r["how"], cj,
                         observed={"value": v, r["how"]: v2}, expected="equal", tags=base_tags)
    return len(ctx.failures) - n0


def check_binary_eq(ctx, mcases, batch="binary-entry-equals-thresholding"):
    """fss_2d_binary(fcst > thr, obs > thr) == fss_2d(fcst, obs, thr, np.greater) on the same arrays and request"""
    for c in mcases:
        fx, ox, keep, red, groups = multi_groups(c)
        ctx.case(batch, c, nontrivial=True)
        try:
            c1 = dict(c, binary=False)
            r1 = impl_multi(c1, fx, ox)
            with np.errstate(all="ignore"):
                bf = xr.DataArray(OPS[c["op"]](fx.values, c["thr"]), dims=fx.dims)
                bo = xr.DataArray(OPS[c["op"]](ox.values, c["thr"]), dims=ox.dims)
            r2 = impl_multi(dict(c, binary=True), bf, bo)
        except Exception as ex:
            ctx.fail(batch, "property", "fss_2d_binary", "exception", c, observed=core.exc_class(ex) + ": " + str(ex)[:200], expected="a value")
            continue
        a = np.asarray(r1.transpose(*keep).values, dtype=float).ravel()
        b = np.asarray(r2.transpose(*keep).values, dtype=float).ravel()
        if a.shape != b.shape or not all(core.close_ff(x, y) for x, y in zip(a, b)):
            ctx.fail(batch, "property", "fss_2d_binary", "differs-from-thresholding", c, observed=b.tolist(), expected=a.tolist(),
                     tags={"pad": c["pad"]})


AGG_EXAMPLE = dict(kind="multi", binary=False, H=1, W=2, h=1, w=1, pad=False, thr=0.5, op="gt", sizes={"t": 2},
                   fdims=["t", "y", "x"], odims=["t", "y", "x"],
                   fdata=[[[1.0, 1.0]], [[1.0, 0.0]]], odata=[[[1.0, 1.0]], [[0.0, 0.0]]], mode="none", req=None)
# field 1: identical (score 1); field 2: one forecast event, no observed event (score 0): mean of scores = 1/2,
# score of the pooled sums = 1 - 1/(2 + 3) = 4/5


def oracle(ctx, boost):
    per = ctx.n(2, 3)
    cases = [dict(F5_WITNESS)]
    cases += single_stream(ctx, per, ctx.n(400, 3000), boost=boost)
    if ctx.thorough or boost:
        bs = binary_stream(ctx)
        cases += bs if ctx.thorough else ctx.rng.sample(bs, min(len(bs), 1500))
    check_singles(ctx, cases)
    mcases = [AGG_EXAMPLE] + [gen_multi(ctx.rng, binary=(i % 4 == 3)) for i in range(ctx.n(150, 1200) * (3 if boost else 1))]
    run_multi(ctx, mcases, "multi-vs-pooled-window-count", "property")
    check_binary_eq(ctx, [gen_multi(ctx.rng) for _ in range(ctx.n(60, 500))])


def replay(ctx, payload):
    case = payload["case"]
    sub = core.Ctx("C16", "quick", payload.get("seed", 0))
    if case.get("kind") == "single":
        c = dict(case)
        c["f"] = arr(case["f"]).tolist()
        c["o"] = arr(case["o"]).tolist()
        c["thr"] = float(core.parse_fl(case["thr"])) if isinstance(case["thr"], str) else float(case["thr"])
        for seed in range(4):     # the relations draw two of four transformations: cover all of them
            sub.rng.seed(seed)
            check_singles(sub, [c])
    elif case.get("kind") == "multi":
        if payload.get("batch") == "binary-entry-equals-thresholding":
            check_binary_eq(sub, [case])
        else:
            run_multi(sub, [case], "replay", "property")
    fails = [f for f in sub.failures if f["kind"] == "property"]
    sig = payload.get("signature")
    return any(f["signature"] == sig for f in fails) if sig else bool(fails)
