"""C16 — FSS equals the sliding-window definition and aggregates by components."""
from __future__ import annotations

import itertools
import math
import warnings

import numpy as np
import xarray as xr

from sv import core

PROPERTY = "C16"
GEN = ["Fss"]
PROPS = ["ScoresVerif/Props/C16.lean", "ScoresVerif/Props/C16Stretch.lean", "ScoresVerif/Props/C16Sym.lean"]
DRIVER_DEPS = ["ScoresVerif.Driver.C16"]
LEVEL = "proof"
TRUSTED = ["numpy cumsum / fancy indexing / nanmean and xarray.apply_ufunc(vectorize=True) behave as modelled in "
           "Model/Fss.lean (tables, running sums, clipped index vectors) — compared on every run (tie X)",
           "gather_dimensions is modelled by its documented rule (reduce set = request minus spatial dims)"]
ASSUMPTIONS = ["field values and thresholds are small dyadic numbers / NaN / inf, so comparisons are exact; window counts are "
               "integers (exact in float64 far beyond the sizes used); quotients compared to 1e-9",
               "fcst and obs carry the same coordinate labels in the same stored order (F13 belongs to C04); no dask inputs",
               "float rounding, overflow and signed zero are not modelled",
               "storage dtypes: the fields are also stored as int64 / int32 / int16 / int8 / bool / float32 (uint8 / uint16 in "
               "separately tagged batches) holding only values the dtype represents exactly (NaN / inf in float storage only); "
               "the model and the spec work on the exact values of the stored numbers, so the expected score does not depend on "
               "the storage dtype; thresholds stay float64 numbers the dtype mostly cannot represent (0.5, 2.5, 0.1, 1+2^-30, "
               "out-of-range for int8 / uint8), passed as Python float (default), np.float64, Python int or np.float32",
               "large windows (area > 4096 .. > 65535; thorough > 2^24): 0/1 fields that are all events except a few cells and one "
               "rectangle; expected value = the window-count definition by an exact integer closed form in the harness (oracle "
               "only: neither the Lean spec nor the model is evaluated on these sizes); float64 sums of squared counts stay "
               "below 2^53, so the comparison tolerance 1e-9 is not rounding-limited"]
MANIFEST = dict(
    level="proof",
    text="Kernel-checked Lean theorems, for all field shapes and windows, about a model of the FSS pipeline whose scalar tails "
         "(compute_fss, the aggregation step/tail, the order of the component triple) are regenerated from the source on every run: "
         "cumsum-cumsum with the zero row/column is the summed-area table; without padding the image has (H-h+1)(W-w+1) entries, each "
         "the direct window count; with zero padding the clipped corners are the direct counts on the field extended by floor(h/2) "
         "before and h-floor(h/2) after; the score is 1 - sum(po-pf)^2/(sum po^2 + sum pf^2) and 0 for a zero denominator, lies in [0,1] "
         "without the clamp, is symmetric, is 1 for identical fields with an event, NaN cells are non-events, the binary entry is "
         "thresholding, and several fields aggregate by the pooled (mean) three sums with a 2-field example differing from the mean of "
         "scores.  The padded clause of the property holds for even window dimensions (fss_pad_partial) and fails for odd ones "
         "(fss_pad_counterexample, known finding F5).  Tied to the code by the translator plus an exhaustive/random correspondence on "
         "scores, images and components, and an independent direct-count oracle (Lean Spec) on fss_2d_single_field / fss_2d / fss_2d_binary.  "
         "Both ties also run with the fields stored as int64 / int32 / int16 / int8 / bool / float32 / uint8 / uint16 (fcst and obs "
         "also in different dtypes) against thresholds the dtype cannot represent, with 0/1 fields of every dtype through "
         "fss_2d_binary(check_boolean=False), and with more events than a narrow dtype can count; expected values come from the exact "
         "stored values, and the same values stored as float64 must give the same result.  Large windows (a window holding more "
         "than 4096 / 32767 / 46340 / 65535 events, thorough also 2^24) are compared on all three entry points with an exact "
         "integer closed form of the window-count definition (harness oracle only, not Lean).",
    note="Trusted: Lean kernel; propext/Classical.choice/Quot.sound; py2lean + tools/gen/Fss.py; SV.Fl; the hand model of numpy cumsum / "
         "clip / fancy indexing / nanmean and of xarray.apply_ufunc(vectorize) + gather_dimensions (compared, not proved); harness "
         "tolerance 1e-9 on dyadic inputs.  Not modelled: dask inputs, differently ordered coordinates (F13, C04), non-boolean input of "
         "fss_2d_binary(check_boolean=False), float rounding.  Known finding F5 (odd window + zero padding) is reported as KNOWN-FINDING, "
         "only when the implementation equals the direct count with the code's asymmetric extension.  Known findings F-C16b (a "
         "Python-float threshold is rounded to float32 before the comparison with a float32 field; recognised only when the "
         "implementation equals the direct count on the events of the rounded threshold; the model tie passes np.float64 thresholds "
         "there) and F-C16a (fss_2d_binary(check_boolean=False) accumulates window counts in float16 storage; > 2048 events).",
    technique="Lean 4 theorems over a hand model + translator-regenerated scalar tails; exhaustive small-shape differential correspondence; "
              "exact direct-count oracle",
    design="6/C16")
RULE = ("exhaustive over all shapes up to 3x4 (quick) / 4x4 (thorough) x all windows x both paddings with several field pairs "
        "each, all binary fields of shapes up to 3x3 (thorough; 2x3 quick), random shapes up to 7x9, four operators, NaN cells, "
        "multi-field arrays with extra dims and every reduction; storage dtypes int64 / int32 / int16 / int8 / bool / float32 "
        "(uint8 / uint16 as separate '-unsigned' batches): per dtype every shape up to 3x3 x every window x both paddings with "
        "the four operators and the non-representable thresholds in rotation, ALL two-valued fields around such a threshold "
        "for shapes up to 2x2, random shapes up to 6x7, fcst/obs in different dtypes, multi-field arrays through fss_2d / "
        "fss_2d_binary (bool and 0/1 in other dtypes), dense fields with more events than int8 / uint8 / float16 can count; "
        "large windows: densely filled fields a few cells larger than a window whose area just exceeds 2^12 (float32 squares), "
        "2^15-1 (int16 counts), 46340 (int32 squares), 2^16-1 (uint16 counts) [thorough: 2^24, float32 counts], both paddings, "
        "three entry points, eight storage dtypes in rotation, compared with the exact closed-form window count; "
        "distinct = distinct canonical case; non-trivial = at least one event in either field")

OPS = {"gt": np.greater, "ge": np.greater_equal, "lt": np.less, "le": np.less_equal}
F5_TAGS = {"defect": "F5", "zero_padding": True, "odd_window": True}
F5_SITE = "fss_2d_single_field"
F5_SIG = "padding-asymmetric"

# the recorded witness of F5 (always the first case of the oracle): 3x3 fields, 3x3 window, zero padding
F5_WITNESS = dict(kind="single", f=[[1.0, 0.0, 0.0], [0.0, 0.0, 0.0], [0.0, 0.0, 0.0]],
                  o=[[0.0, 0.0, 0.0], [0.0, 0.0, 1.0], [0.0, 0.0, 0.0]], thr=0.5, op="gt", h=3, w=3, pad=True)


# ----------------------------------------------------------------------------- helpers
def mat(a):
    return [[core.fl_str(float(v)) for v in row] for row in np.asarray(a, dtype=float)]


def arr(m):
    return np.array([[float(core.parse_fl(v)) if isinstance(v, str) else float(v) for v in row] for row in m], dtype=float)


def case_json(c):
    d = dict(c)
    for k in ("f", "o"):
        if k in d:
            d[k] = mat(d[k])
    if "fields" in d:
        d["fields"] = [[mat(f), mat(o)] for f, o in d["fields"]]
    if "thr" in d:
        d["thr"] = core.fl_str(float(d["thr"]))
    return d


def store(a, dt):
    """the array of the listed VALUES stored as dtype `dt` (None = float64).  The values must be exactly representable
    in `dt` (the generator's job): the stored numbers ARE the listed numbers, so every expected value (Lean model / spec
    on the exact values) is independent of the storage dtype."""
    a = np.array(a, dtype=float)
    if dt in (None, "float64"):
        return a
    if np.dtype(dt).kind != "f" and not np.all(np.isfinite(a)):
        raise AssertionError("harness: NaN/inf in non-float storage " + str(dt))
    with np.errstate(all="ignore"), warnings.catch_warnings():
        warnings.simplefilter("ignore")
        b = a.astype(dt)
        back = b.astype(float)
    if not np.array_equal(back, a, equal_nan=True):
        raise AssertionError("harness: values not representable in " + str(dt))
    return b


def thr_arg(c):
    """the event threshold as passed to the library: a Python float unless the case asks for another scalar type"""
    t, thr = c.get("thrtype"), float(c["thr"])
    if t == "np64":
        return np.float64(thr)
    if t == "int" and thr.is_integer():
        return int(thr)
    if t == "np32" and float(np.float32(thr)) == thr:
        return np.float32(thr)
    return thr


def has_dtype(c):
    return any(c.get(k) not in (None, "float64") for k in ("dtf", "dto", "bdt"))


def impl_single(c):
    from scores.spatial import fss_2d_single_field
    f, o = store(c["f"], c.get("dtf")), store(c["o"], c.get("dto"))
    with np.errstate(all="ignore"), warnings.catch_warnings():
        warnings.simplefilter("ignore")
        return float(fss_2d_single_field(f, o, event_threshold=thr_arg(c), window_size=(c["h"], c["w"]),
                                         zero_padding=c["pad"], threshold_operator=OPS[c["op"]]))


def impl_internals(c):
    """(img_f, img_o, comps) of the numpy backend, or None when the internals are not reachable"""
    try:
        from scores.fast.fss.fss_numpy import FssNumpy
        from scores.utils import NumpyThresholdOperator
        b = FssNumpy(store(c["f"], c.get("dtf")), store(c["o"], c.get("dto")), event_threshold=thr_arg(c),
                     window_size=(c["h"], c["w"]), zero_padding=c["pad"],
                     threshold_operator=NumpyThresholdOperator(OPS[c["op"]]))
        with np.errstate(all="ignore"):
            comps = b.compute_fss_decomposed()
        return (np.asarray(b._fcst_img, dtype=float).ravel(), np.asarray(b._obs_img, dtype=float).ravel(),
                [float(x) for x in comps.item()])
    except (AttributeError, ImportError, TypeError):
        return None


def model_op(c, fields=None, scalar=False, img=False, op=None):
    fields = fields if fields is not None else [(c["f"], c["o"])]
    H, W = np.asarray(fields[0][0]).shape
    return {"op": "c16.model", "args": {"fields": [[mat(f), mat(o)] for f, o in fields], "H": int(H), "W": int(W),
                                        "h": int(c["h"]), "w": int(c["w"]), "pad": bool(c["pad"]), "op": op or c["op"],
                                        "thr": core.fl_str(float(c["thr"])), "scalar": bool(scalar), "img": bool(img)}}


def spec_op(c, ext, fields=None, op=None, thr=None):
    fields = fields if fields is not None else [(c["f"], c["o"])]
    H, W = np.asarray(fields[0][0]).shape
    return {"op": "c16.spec", "args": {"fields": [[mat(f), mat(o)] for f, o in fields], "H": int(H), "W": int(W),
                                       "h": int(c["h"]), "w": int(c["w"]), "op": op or c["op"],
                                       "thr": core.fl_str(float(c["thr"] if thr is None else thr)), "ext": ext}}


def odd_pad(c):
    return bool(c["pad"]) and (c["h"] % 2 == 1 or c["w"] % 2 == 1)


def prop_ext(c):
    return "sym" if c["pad"] else "none"


def n_events(c, f):
    with np.errstate(all="ignore"):
        return int(np.sum(OPS[c["op"]](np.asarray(f, dtype=float), c["thr"])))


# ----------------------------------------------------------------------------- generators
VALS = [-1.0, 0.0, 0.5, 1.0, 1.5, 2.0, 3.0]
THRS = [0.0, 0.5, 1.0, 1.5, 2.0, -1.0]


def gen_field(rng, H, W, thr, style=None):
    style = style or rng.choice(["pool", "pool", "binary", "sparse", "dense", "empty", "full"])
    if style == "binary":
        a = np.array([[float(rng.random() < 0.5) for _ in range(W)] for _ in range(H)])
    elif style == "sparse":
        a = np.full((H, W), thr - 1.0)
        for _ in range(rng.randint(1, 2)):
            a[rng.randrange(H), rng.randrange(W)] = thr + 1.0
    elif style == "dense":
        a = np.full((H, W), thr + 1.0)
        for _ in range(rng.randint(1, 2)):
            a[rng.randrange(H), rng.randrange(W)] = thr - 0.5
    elif style == "empty":
        a = np.full((H, W), thr)      # tie with the threshold everywhere
    elif style == "full":
        a = np.full((H, W), thr + 0.25)
    else:
        a = np.array([[rng.choice(VALS + [thr, thr]) for _ in range(W)] for _ in range(H)])
    r = rng.random()
    if r < 0.25:
        for _ in range(rng.randint(1, max(1, H * W // 3))):
            a[rng.randrange(H), rng.randrange(W)] = np.nan
    elif r < 0.30:
        a[rng.randrange(H), rng.randrange(W)] = rng.choice([np.inf, -np.inf])
    return a


def gen_pair(rng, H, W, thr):
    f = gen_field(rng, H, W, thr)
    r = rng.random()
    if r < 0.25:
        o = f.copy()
    elif r < 0.45:
        o = f.copy()
        for _ in range(rng.randint(1, 2)):
            o[rng.randrange(H), rng.randrange(W)] = rng.choice(VALS)
    elif r < 0.55:
        o = f[::-1, ::-1].copy()
    else:
        o = gen_field(rng, H, W, thr)
    return f, o


def gen_single(rng, H, W, h, w, pad, op=None):
    thr = rng.choice(THRS)
    f, o = gen_pair(rng, H, W, thr)
    return dict(kind="single", f=f.tolist(), o=o.tolist(), thr=thr, op=op or rng.choice(list(OPS)), h=h, w=w, pad=pad)


def configs(maxH, maxW):
    for H in range(1, maxH + 1):
        for W in range(1, maxW + 1):
            for h in range(1, H + 1):
                for w in range(1, W + 1):
                    for pad in (False, True):
                        yield H, W, h, w, pad


def single_stream(ctx, per_config, n_random, boost=False):
    rng = ctx.rng
    mh, mw = (4, 4) if ctx.thorough else (3, 4)
    cases = []
    k = 0
    for (H, W, h, w, pad) in configs(mh, mw):
        for _ in range(per_config):
            cases.append(gen_single(rng, H, W, h, w, pad, op=list(OPS)[k % 4]))
            k += 1
    for _ in range(n_random * (5 if boost else 1)):
        H = rng.randint(1, 7)
        W = rng.randint(1, 9)
        h = rng.choice([1, H, rng.randint(1, H), rng.randint(1, H)])
        w = rng.choice([1, W, rng.randint(1, W), rng.randint(1, W)])
        if rng.random() < 0.4:      # even windows (the padded mode the property holds for) are rare among small shapes
            h = 2 * rng.randint(1, H // 2) if H >= 2 else h
            w = 2 * rng.randint(1, W // 2) if W >= 2 else w
        cases.append(gen_single(rng, H, W, h, w, rng.random() < 0.5))
    return cases


def binary_fields(H, W):
    for bits in itertools.product((0.0, 1.0), repeat=H * W):
        yield np.array(bits).reshape(H, W)


def binary_stream(ctx):
    """all binary fields of small shapes x all windows x both paddings; the partner field is the complement,
    the field itself shifted, or all ones (the image of a field does not depend on its partner)"""
    shapes = [(H, W) for H in range(1, 4) for W in range(1, 4)] if ctx.thorough else \
             [(H, W) for H in range(1, 3) for W in range(1, 4)]
    out = []
    for (H, W) in shapes:
        for i, f in enumerate(binary_fields(H, W)):
            partner = [1.0 - f, np.roll(f, 1, axis=1), np.ones((H, W)), f][i % 4]
            for h in range(1, H + 1):
                for w in range(1, W + 1):
                    for pad in (False, True):
                        out.append(dict(kind="single", f=f.tolist(), o=partner.tolist(), thr=0.5, op="gt", h=h, w=w, pad=pad))
    ctx.exhaustive.append(f"all binary fields of shapes {shapes[0]}..{shapes[-1]} x all windows x both paddings ({len(out)} cases)")
    return out


# ----------------------------------------------------------------------------- storage dtypes of the fields (input class)
# The same labelled VALUES are stored as int64 / int32 / int16 / int8 / bool / float32 (and, in separately tagged batches,
# uint8 / uint16) — only values the dtype represents exactly, NaN / inf only in float storage — against float64
# thresholds the dtype cannot represent (0.5, 2.5 for integers and bool; 0.1, 0.7, 1+2^-30 for float32; out-of-range
# numbers for int8 / uint8).  Every small integer / float32 IS a float64, so `value <op> threshold` has one truth value:
# the one the Lean spec computes on the exact rationals.
SIGNED_DT = ["int64", "int32", "int16", "int8", "bool", "float32"]
UNSIGNED_DT = ["uint8", "uint16"]


def f32(x):
    return float(np.float32(x))


def dt_pool(dt):
    if dt == "bool":
        return [0.0, 1.0]
    if dt == "float32":
        return VALS + [f32(0.1), f32(0.3), f32(0.7)]
    if dt == "uint8":
        return [0.0, 1.0, 2.0, 3.0, 4.0, 255.0]
    if dt == "uint16":
        return [0.0, 1.0, 2.0, 3.0, 4.0, 255.0, 256.0, 65535.0]
    if dt == "int8":
        return [-2.0, -1.0, 0.0, 1.0, 2.0, 3.0, 127.0, -128.0]
    return [-2.0, -1.0, 0.0, 1.0, 2.0, 3.0]


def dt_thrs(dt):
    """(thresholds the dtype cannot represent, thresholds it can)"""
    if dt == "bool":
        return [0.5, 0.5, 2.5, -0.5, 1.5], [0.0, 1.0]
    if dt == "float32":
        return [0.1, 0.7, 0.3, 1.0 + 2.0 ** -30, 0.1, 0.7], [0.5, 2.5, f32(0.1), 1.0]
    if dt == "uint8":
        return [0.5, 2.5, 0.5, 2.5, -0.5, -1.0, 255.5, 256.0, 254.5], [0.0, 1.0, 255.0]
    if dt == "uint16":
        return [0.5, 2.5, 0.5, 2.5, -0.5, -1.0, 65535.5, 65536.0, 255.5], [0.0, 1.0, 256.0]
    if dt == "int8":
        return [0.5, 2.5, 0.5, 2.5, 1.5, -0.5, 127.5, -128.5, 128.0, 200.5, -129.0], [0.0, 1.0, 2.0, -1.0]
    return [0.5, 2.5, 0.5, 2.5, 1.5, -0.5], [0.0, 1.0, 2.0, -1.0]


def dt_near(thr, dt):
    """the numbers of the dtype next to the threshold (below, [equal], above)"""
    if dt == "bool":
        return [0.0, 1.0]
    if dt == "float32":
        c = np.float32(thr)
        return sorted({float(np.nextafter(c, np.float32(-np.inf))), float(c), float(np.nextafter(c, np.float32(np.inf)))})
    info = np.iinfo(dt)
    lo, hi = math.floor(thr), math.ceil(thr)
    cand = [lo, hi] if lo != hi else [lo - 1, lo, lo + 1]
    out = sorted({float(min(max(v, info.min), info.max)) for v in cand})
    return out


def representable(thr, dt):
    if dt == "bool":
        return thr in (0.0, 1.0)
    if dt == "float32":
        return f32(thr) == thr
    info = np.iinfo(dt)
    return float(thr).is_integer() and info.min <= thr <= info.max


def gen_dtype_field(rng, H, W, thr, dt):
    pool = dt_pool(dt)
    near = dt_near(thr, dt)
    lo, hi = near[0], near[-1]
    style = rng.choice(["pool", "pool", "near", "sparse", "dense", "binary"])
    if style == "pool":
        a = np.array([[rng.choice(pool + near) for _ in range(W)] for _ in range(H)])
    elif style == "near":
        a = np.array([[rng.choice(near) for _ in range(W)] for _ in range(H)])
    elif style == "sparse":
        a = np.full((H, W), lo)
        for _ in range(rng.randint(1, 2)):
            a[rng.randrange(H), rng.randrange(W)] = hi
    elif style == "dense":
        a = np.full((H, W), hi)
        for _ in range(rng.randint(1, 2)):
            a[rng.randrange(H), rng.randrange(W)] = lo
    else:
        a = np.array([[float(rng.random() < 0.5) for _ in range(W)] for _ in range(H)])
    if np.dtype(dt).kind == "f":
        r = rng.random()
        if r < 0.20:
            for _ in range(rng.randint(1, max(1, H * W // 3))):
                a[rng.randrange(H), rng.randrange(W)] = np.nan
        elif r < 0.25:
            a[rng.randrange(H), rng.randrange(W)] = rng.choice([np.inf, -np.inf])
    return a


def other_dtype(rng, values, dt, unsigned):
    """a different storage dtype for the partner field that represents its values exactly (else the same dtype)"""
    cand = rng.choice((UNSIGNED_DT + ["int64", "float64", "float32"]) if unsigned else (SIGNED_DT + ["float64"]))
    try:
        store(values, cand)
    except AssertionError:
        return dt
    return cand


def gen_in_dtype(rng, H, W, thr, dt):
    return gen_field(rng, H, W, thr) if dt == "float64" else gen_dtype_field(rng, H, W, thr, dt)


def alt_dtype(rng, unsigned):
    """an unrelated storage dtype for ONE of the two fields (its values come from that dtype's own pool: fractional
    numbers / NaN for float64, negative numbers next to an unsigned partner ...)"""
    return rng.choice((UNSIGNED_DT if unsigned else SIGNED_DT) + ["float64", "float64", "int64"])


def gen_dtype_single(rng, H, W, h, w, pad, dt, op=None, thr=None, unsigned=False):
    non, rep = dt_thrs(dt)
    if thr is None:
        thr = rng.choice(non) if rng.random() < 0.7 else rng.choice(rep)
    dtf = dto = dt
    if rng.random() < 0.3:
        if rng.random() < 0.5:
            dtf = alt_dtype(rng, unsigned)
        else:
            dto = alt_dtype(rng, unsigned)
    f = gen_in_dtype(rng, H, W, thr, dtf)
    r = rng.random()
    if dtf != dto or r >= 0.55:
        o = gen_in_dtype(rng, H, W, thr, dto)
    elif r < 0.25:
        o = f.copy()
    elif r < 0.45:
        o = f.copy()
        for _ in range(rng.randint(1, 2)):
            o[rng.randrange(H), rng.randrange(W)] = rng.choice(dt_pool(dt))
    else:
        o = f[::-1, ::-1].copy()
    if dtf == dto and rng.random() < 0.2:
        dto = other_dtype(rng, o, dt, unsigned)       # the same kind of values, losslessly stored in another dtype
        if rng.random() < 0.5:
            f, o, dtf, dto = o, f, dto, dtf
    c = dict(kind="single", f=f.tolist(), o=o.tolist(), thr=thr, op=op or rng.choice(list(OPS)), h=h, w=w, pad=pad,
             dtf=dtf, dto=dto)
    r = rng.random()
    if r < 0.15:
        c["thrtype"] = "np64"
    elif r < 0.30 and float(thr).is_integer():
        c["thrtype"] = "int"
    elif r < 0.35 and f32(thr) == thr:
        c["thrtype"] = "np32"
    if unsigned:
        c["unsigned"] = True
    return c


def dtype_stream(ctx, dts, per_config, n_random, unsigned=False, boost=False):
    """every shape up to 3x3 x every window (down to 1x1) x both paddings per dtype, the four operators and the
    non-representable thresholds in rotation; then random shapes up to 6x7"""
    rng = ctx.rng
    cases = []
    k = 0
    for dt in dts:
        non = dt_thrs(dt)[0]
        for (H, W, h, w, pad) in configs(3, 3):
            for _ in range(per_config):
                cases.append(gen_dtype_single(rng, H, W, h, w, pad, dt, op=list(OPS)[k % 4], thr=non[(k // 4) % len(non)],
                                              unsigned=unsigned))
                k += 1
    for _ in range(n_random * (5 if boost else 1)):
        H = rng.randint(1, 6)
        W = rng.randint(1, 7)
        h = rng.choice([1, H, rng.randint(1, H), rng.randint(1, H)])
        w = rng.choice([1, W, rng.randint(1, W), rng.randint(1, W)])
        if rng.random() < 0.4:
            h = 2 * rng.randint(1, H // 2) if H >= 2 else h
            w = 2 * rng.randint(1, W // 2) if W >= 2 else w
        cases.append(gen_dtype_single(rng, H, W, h, w, rng.random() < 0.5, rng.choice(dts), unsigned=unsigned))
    return cases


def dtype_exhaustive(ctx, dts, unsigned=False):
    """ALL fields over the two numbers of the dtype next to the threshold (0.5: {0,1}; 2.5: {2,3}; float32 0.1: its two
    float32 neighbours ...) of shapes 1x1, 1x2, 2x1, 1x3, 2x2 x all windows x both paddings, the operators in rotation
    (every field meets all four); partner = complement / shifted / all-high / the field itself"""
    out = []
    shapes = [(1, 1), (1, 2), (2, 1), (1, 3), (2, 2)]
    for dt in dts:
        thrs = {"float32": [0.1, 0.7], "bool": [0.5]}.get(dt, [0.5, 2.5])
        for thr in thrs:
            near = dt_near(thr, dt)
            lo, hi = max(v for v in near if v < thr), min(v for v in near if v > thr)     # the two numbers of dt bracketing thr
            k = 0
            for (H, W) in shapes:
                for i, bits in enumerate(itertools.product((0, 1), repeat=H * W)):
                    b = np.array(bits).reshape(H, W)
                    f = np.where(b == 1, hi, lo)
                    pb = [1 - b, np.roll(b, 1, axis=1), np.ones((H, W), dtype=int), b][i % 4]
                    o = np.where(pb == 1, hi, lo)
                    for h in range(1, H + 1):
                        for w in range(1, W + 1):
                            for pad in (False, True):
                                c = dict(kind="single", f=f.tolist(), o=o.tolist(), thr=thr, op=list(OPS)[k % 4], h=h, w=w,
                                         pad=pad, dtf=dt, dto=dt)
                                if unsigned:
                                    c["unsigned"] = True
                                out.append(c)
                                k += 1
    ctx.exhaustive.append(f"storage dtypes {', '.join(dts)}: all two-valued fields around a threshold the dtype cannot represent, "
                          f"shapes 1x1..2x2 x all windows x both paddings ({len(out)} cases)")
    return out


def dtype_tags(ctx, c):
    for k in ("dtf", "dto", "bdt"):
        if c.get(k) is not None:
            ctx.tag(f"{k}:{c[k]}")
    dts = [c.get(k) for k in ("dtf", "dto") if c.get(k) not in (None, "float64")]
    if dts and "thr" in c and any(not representable(float(c["thr"]), d) for d in dts):
        ctx.tag("threshold-not-representable-in-field-dtype")
    if c.get("dtf") != c.get("dto"):
        ctx.tag("fcst-obs-stored-in-different-dtypes")
    if c.get("thrtype"):
        ctx.tag("threshold-passed-as:" + c["thrtype"])


def dtype_fail_tags(c):
    t = {k: c[k] for k in ("dtf", "dto", "bdt") if c.get(k) is not None}
    if c.get("unsigned"):
        t["storage"] = "unsigned"
    return t


def as_float64(c):
    d = {k: v for k, v in c.items() if k not in ("dtf", "dto", "bdt", "thrtype")}
    return d


# ---- defect F-C16b of the unchanged code (NumPy >= 2, NEP 50): `_op(self.fcst, self.event_threshold)` with a Python-float
# threshold is a comparison with a "weak" scalar: against a float32 (float16) array the threshold is first ROUNDED to that
# dtype.  A float32 field therefore gets other events than the same values stored as float64 whenever a cell lies between
# the threshold and its float32 rounding (e.g. the cell float32(0.1) = 0.100000001490116 and the threshold 0.1), and
# passing np.float64(0.1) instead of 0.1 changes the score.  Classified as this finding ONLY when the implementation equals
# the exact window-count spec on the events obtained with the threshold rounded to each field's own narrow float dtype.
WEAK_TAGS = {"defect": "F-C16b", "field_storage": "float32", "threshold": "python-float-not-representable-in-float32"}
WEAK_SITE = "_apply_event_threshold"
WEAK_SIG = "python-float-threshold-rounded-to-field-dtype"


def narrow_float(dt):
    return dt in ("float32", "float16")


def weak_applies(c):
    if c.get("binary"):
        return False
    thr = float(c["thr"])
    if c.get("thrtype") in ("np64", "np32") or (c.get("thrtype") == "int" and thr.is_integer()):
        return False
    return any(narrow_float(c.get(k)) and float(np.dtype(c[k]).type(thr)) != thr for k in ("dtf", "dto"))


def weak_events(values, dt, thr, op):
    """the 0/1 event field numpy computes for `op(values stored as dt, <Python float> thr)`"""
    t = float(np.dtype(dt).type(thr)) if narrow_float(dt) else float(thr)
    with np.errstate(all="ignore"):
        return OPS[op](np.array(values, dtype=float), t).astype(float)


EXTRA = ["t", "lead", "m"]


def gen_multi(rng, binary=False, dt=None, unsigned=False):
    """a case for fss_2d / fss_2d_binary: extra dims, broadcasting between fcst and obs, a reduction request.
    dt: storage dtype of the fields (values drawn representable in it; thresholds mostly not representable)"""
    H = rng.randint(1, 4)
    W = rng.randint(1, 4)
    h = rng.randint(1, H)
    w = rng.randint(1, W)
    extras = rng.sample(EXTRA, rng.randint(0, 3))
    sizes = {d: rng.randint(1, 3) for d in extras}
    fd = [d for d in extras if rng.random() < 0.8]
    od = [d for d in extras if (d not in fd) or rng.random() < 0.6]
    thr = rng.choice(THRS)
    if binary:
        thr = 0.5
    elif dt is not None:
        non, repres = dt_thrs(dt)
        thr = rng.choice(non) if rng.random() < 0.7 else rng.choice(repres)

    fdt = odt = dt
    if dt is not None and not binary and rng.random() < 0.35:
        if rng.random() < 0.5:
            fdt = alt_dtype(rng, unsigned)
        else:
            odt = alt_dtype(rng, unsigned)

    def build(dims, sdt=None):
        shape = [sizes[d] for d in dims] + [H, W]
        n = int(np.prod(shape[:-2])) if dims else 1
        if sdt is not None and not binary:
            fl = [gen_in_dtype(rng, H, W, thr, sdt) for _ in range(n)]
        else:
            fl = [gen_field(rng, H, W, thr, style="binary" if binary else None) for _ in range(n)]
        if binary:
            fl = [np.nan_to_num(x, nan=0.0, posinf=1.0, neginf=0.0) for x in fl]
        return np.array(fl).reshape(shape)

    fa = build(fd, fdt)
    oa = build(od, odt)
    if fd == od and rng.random() < 0.3:
        oa = fa.copy()
        odt = fdt
    # stored dimension order: spatial dims anywhere
    f_order = fd + ["y", "x"]
    o_order = od + ["y", "x"]
    if rng.random() < 0.5:
        rng.shuffle(f_order)
        if rng.random() < 0.5:
            o_order = [d for d in f_order if d in o_order] + [d for d in o_order if d not in f_order]
    mode = rng.choice(["none", "reduce", "reduce", "preserve", "preserve", "reduce_all", "preserve_all"])
    req = None
    if mode == "reduce":
        req = rng.sample(extras, rng.randint(0, len(extras))) if extras else []
        if rng.random() < 0.3:
            req = req + rng.sample(["y", "x"], rng.randint(1, 2))
        if req == [] and rng.random() < 0.5:
            mode, req = "none", None       # an empty reduce list: covered below as its own mode
    elif mode == "preserve":
        req = rng.sample(extras, rng.randint(0, len(extras))) if extras else []
    c = dict(kind="multi", binary=binary, H=H, W=W, h=h, w=w, pad=rng.random() < 0.5, thr=thr,
             op="gt" if binary else rng.choice(list(OPS)), sizes=sizes, fdims=f_order, odims=o_order,
             fdata=np.transpose(fa, [(fd + ["y", "x"]).index(d) for d in f_order]).tolist(),
             odata=np.transpose(oa, [(od + ["y", "x"]).index(d) for d in o_order]).tolist(),
             mode=mode, req=req)
    if dt is not None:
        # binary entry point: bool (check_boolean=True) or 0/1 stored in another dtype (check_boolean=False, documented to
        # "give the same results"); the thresholding entry point: fields stored as dt, sometimes obs in another dtype
        bchoices = ["bool"] + UNSIGNED_DT if unsigned else ["bool", "bool", "int8", "int64", "int32", "float32"]
        if binary:
            c["bdt"] = dt if rng.random() < 0.6 else rng.choice(bchoices)
        else:
            c["dtf"], c["dto"] = fdt, odt
            if fdt == odt and rng.random() < 0.15:
                c["dto"] = other_dtype(rng, oa, odt, unsigned)      # the same values, losslessly stored in another dtype
            c["bdt"] = rng.choice(bchoices)      # used by the binary-entry-equals-thresholding relation
            r = rng.random()
            if r < 0.15:
                c["thrtype"] = "np64"
            elif r < 0.30 and float(thr).is_integer():
                c["thrtype"] = "int"
        if unsigned:
            c["unsigned"] = True
    return c


def multi_reduce_set(c):
    """the documented rule: which non-spatial dims are aggregated over"""
    extras = sorted(set(c["fdims"]) | set(c["odims"]) - {"y", "x"})
    extras = [d for d in extras if d not in ("y", "x")]
    m = c["mode"]
    if m in ("none", "reduce_all"):
        return extras
    if m == "preserve_all":
        return []
    if m == "reduce":
        return [d for d in extras if d in c["req"]]
    return [d for d in extras if d not in c["req"]]


def multi_groups(c):
    """{index tuple over preserved dims -> list of (fcst field, obs field)} by the rule of the property"""
    fa = np.array(c["fdata"], dtype=float).reshape([c["sizes"].get(d, c["H"] if d == "y" else c["W"]) for d in c["fdims"]])
    oa = np.array(c["odata"], dtype=float).reshape([c["sizes"].get(d, c["H"] if d == "y" else c["W"]) for d in c["odims"]])
    fx = xr.DataArray(fa, dims=c["fdims"])
    ox = xr.DataArray(oa, dims=c["odims"])
    red = multi_reduce_set(c)
    extras = [d for d in sorted(set(c["fdims"]) | set(c["odims"])) if d not in ("y", "x")]
    keep = [d for d in extras if d not in red]
    groups = {}
    for kidx in itertools.product(*[range(c["sizes"][d]) for d in keep]):
        sel = dict(zip(keep, kidx))
        lst = []
        for ridx in itertools.product(*[range(c["sizes"][d]) for d in red]):
            s = dict(sel, **dict(zip(red, ridx)))
            f2 = fx.isel({d: i for d, i in s.items() if d in fx.dims}).transpose("y", "x").values
            o2 = ox.isel({d: i for d, i in s.items() if d in ox.dims}).transpose("y", "x").values
            lst.append((f2, o2))
        groups[kidx] = lst
    return fx, ox, keep, red, groups


def impl_multi(c, fx, ox):
    from scores.spatial import fss_2d, fss_2d_binary
    kw = {}
    if c["mode"] == "reduce":
        kw["reduce_dims"] = ["".join([d[:1], d[1:]]) for d in c["req"]]
    elif c["mode"] == "preserve":
        kw["preserve_dims"] = ["".join([d[:1], d[1:]]) for d in c["req"]]
    elif c["mode"] == "reduce_all":
        kw["reduce_dims"] = "all"
    elif c["mode"] == "preserve_all":
        kw["preserve_dims"] = "all"
    sd = ("".join(["y"]), "".join(["", "x"]))

    def stored(x, dt):
        return x if dt in (None, "float64") else xr.DataArray(store(x.values, dt), dims=x.dims)

    if c["binary"]:
        bdt = c.get("bdt") or "bool"
        fb, ob = (fx.astype(bool), ox.astype(bool)) if bdt == "bool" else (stored(fx, bdt), stored(ox, bdt))
        if bdt != "bool":
            kw["check_boolean"] = False
    else:
        fs, os_ = stored(fx, c.get("dtf")), stored(ox, c.get("dto"))
    with np.errstate(all="ignore"), warnings.catch_warnings():
        warnings.simplefilter("ignore")
        if c["binary"]:
            return fss_2d_binary(fb, ob, window_size=(c["h"], c["w"]), spatial_dims=sd, zero_padding=c["pad"], **kw)
        return fss_2d(fs, os_, event_threshold=thr_arg(c), window_size=(c["h"], c["w"]), spatial_dims=sd,
                      zero_padding=c["pad"], threshold_operator=OPS[c["op"]], **kw)


# ----------------------------------------------------------------------------- correspondence (tie X)
def correspondence(ctx):
    per = ctx.n(3, 5)
    cases = single_stream(ctx, per, ctx.n(400, 3000))
    ctx.exhaustive.append(f"all shapes <= {'4x4' if ctx.thorough else '3x4'} x all windows x both paddings x {per} field pairs")
    cases += binary_stream(ctx)
    # storage dtypes: the model works on the exact values, the implementation on the stored arrays
    cases += dtype_stream(ctx, SIGNED_DT, 1, ctx.n(150, 1500))
    cases += dtype_stream(ctx, UNSIGNED_DT, 1, ctx.n(50, 500), unsigned=True)
    for c in cases:
        if weak_applies(c):
            c["thrtype"] = "np64"        # tie X on float32 storage: threshold passed as np.float64 (see WEAK_* / F-C16b)
    ops = [model_op(c, img=True) for c in cases]
    res = core.run_driver("C16", ops)
    internals_missing = 0
    for c, m in zip(cases, res):
        batch = "impl-vs-model-single" + ("-unsigned" if c.get("unsigned") else "-dtype" if has_dtype(c) else "")
        dtype_tags(ctx, c)
        nt = n_events(c, c["f"]) + n_events(c, c["o"]) > 0
        ctx.case(batch, case_json(c), nontrivial=nt)
        ctx.tag("pad" if c["pad"] else "nopad")
        ctx.tag("odd-window" if (c["h"] % 2 or c["w"] % 2) else "even-window")
        try:
            v = impl_single(c)
        except Exception as ex:
            ctx.fail(batch, "correspondence", "fss_2d_single_field", "exception", case_json(c), observed=core.exc_class(ex),
                     expected=m.get("single"))
            continue
        tags = dict(dtype_fail_tags(c), pad=c["pad"], op=c["op"])
        if "err" in m or not core.close(v, m["single"][0]):
            ctx.fail(batch, "correspondence", "fss_2d_single_field", "value", case_json(c), observed=v, expected=m, tags=tags)
            continue
        it = impl_internals(c)
        if it is None:
            internals_missing += 1
            continue
        img_f, img_o, comps = it
        if len(img_f) != len(m["img_f"]) or any(abs(a - b) > 1e-9 for a, b in zip(img_f, m["img_f"])) \
                or len(img_o) != len(m["img_o"]) or any(abs(a - b) > 1e-9 for a, b in zip(img_o, m["img_o"])):
            ctx.fail(batch, "correspondence", "_compute_integral_field", "image", case_json(c),
                     observed={"img_f": img_f.tolist(), "img_o": img_o.tolist()},
                     expected={"img_f": m["img_f"], "img_o": m["img_o"]}, tags=tags)
        elif not all(core.close(a, b) for a, b in zip(comps, m["comps"][0])):
            ctx.fail(batch, "correspondence", "_compute_fss_components", "components", case_json(c), observed=comps,
                     expected=m["comps"][0], tags=tags)
    if internals_missing:
        ctx.notes.append(f"backend internals not reachable for {internals_missing} cases (score-level comparison only)")

    # multi-field arrays: fss_2d / fss_2d_binary vs model aggregate
    mcases = [gen_multi(ctx.rng, binary=(i % 4 == 3)) for i in range(ctx.n(150, 1200))]
    run_multi(ctx, mcases, "impl-vs-model-multi", "correspondence")
    mcases = [gen_multi(ctx.rng, binary=(i % 4 == 3), dt=SIGNED_DT[i % len(SIGNED_DT)]) for i in range(ctx.n(90, 900))]
    run_multi(ctx, mcases, "impl-vs-model-multi-dtype", "correspondence")
    mcases = [gen_multi(ctx.rng, binary=(i % 4 == 3), dt=UNSIGNED_DT[i % 2], unsigned=True) for i in range(ctx.n(30, 300))]
    run_multi(ctx, mcases, "impl-vs-model-multi-unsigned", "correspondence")

    # malformed stream: windows that do not fit / are empty must raise a ValueError (DimensionError), as the model says
    from scores.spatial import fss_2d_single_field
    bad = []
    for _ in range(ctx.n(12, 60)):
        H, W = ctx.rng.randint(1, 4), ctx.rng.randint(1, 4)
        h, w = ctx.rng.choice([(0, 1), (1, 0), (H + 1, 1), (1, W + 1), (H + 1, W + 1), (0, 0)])
        bad.append(dict(kind="single", f=np.ones((H, W)).tolist(), o=np.ones((H, W)).tolist(), thr=0.5, op="gt", h=h, w=w,
                        pad=ctx.rng.random() < 0.5))
    mres = core.run_driver("C16", [model_op(c) for c in bad])
    for c, m in zip(bad, mres):
        ctx.case("malformed-window", case_json(c), nontrivial=False)
        try:
            v = impl_single(c)
            got = "value"
        except Exception as ex:
            got = core.exc_class(ex)
        exp = m.get("err", "value")
        if got != exp:
            ctx.fail("malformed-window", "correspondence", "fss_2d_single_field", "window-guard", case_json(c), observed=got,
                     expected=exp)


def run_multi(ctx, mcases, batch, kind):
    """fss_2d / fss_2d_binary: impl vs model aggregate (kind='correspondence') or vs the spec (kind='property')"""
    prepared = []
    ops = []
    for c in mcases:
        if kind == "correspondence" and weak_applies(c):
            c["thrtype"] = "np64"        # tie X on float32 storage: threshold passed as np.float64 (see WEAK_* / F-C16b)
        fx, ox, keep, red, groups = multi_groups(c)
        idx = {}
        for kidx, lst in groups.items():
            e = {}
            if kind == "correspondence":
                e["spec"] = len(ops)
                ops.append(model_op(c, fields=lst, scalar=(len(red) == 0), op="left_identity" if c["binary"] else None))
            else:
                o, t = ("gt", 0.5) if c["binary"] else (c["op"], c["thr"])
                e["spec"] = len(ops)
                ops.append(spec_op(c, prop_ext(c), fields=lst, op=o, thr=t))
                if odd_pad(c):
                    e["code"] = len(ops)
                    ops.append(spec_op(c, "code", fields=lst, op=o, thr=t))
                if not c["binary"] and weak_applies(c):
                    wl = [(weak_events(f2, c.get("dtf"), c["thr"], c["op"]), weak_events(o2, c.get("dto"), c["thr"], c["op"]))
                          for f2, o2 in lst]
                    e["weak"] = len(ops)
                    ops.append(spec_op(c, prop_ext(c), fields=wl, op="gt", thr=0.5))
                    if odd_pad(c):
                        e["weakcode"] = len(ops)
                        ops.append(spec_op(c, "code", fields=wl, op="gt", thr=0.5))
            idx[kidx] = e
        prepared.append((c, fx, ox, keep, red, groups, idx))
    res = core.run_driver("C16", ops)
    for (c, fx, ox, keep, red, groups, idx) in prepared:
        cj = {kk: vv for kk, vv in c.items()}
        ctx.case(batch, cj, nontrivial=True)
        ctx.tag("multi-" + c["mode"])
        dtype_tags(ctx, c)
        dtags = dtype_fail_tags(c)
        site = "fss_2d_binary" if c["binary"] else "fss_2d"
        try:
            r = impl_multi(c, fx, ox)
        except Exception as ex:
            ctx.fail(batch, kind, site, "exception", cj, observed=core.exc_class(ex) + ": " + str(ex)[:200], expected="a value",
                     tags=dtags)
            continue
        if set(r.dims) != set(keep):
            ctx.fail(batch, kind, site, "dims", cj, observed=list(r.dims), expected=keep, tags=dict(dtags, mode=c["mode"]))
            continue
        r = r.transpose(*keep)
        bad_val, bad_f5, bad_weak = None, None, None
        for kidx in groups:
            v = float(r.values[kidx]) if keep else float(r.values)
            e = idx[kidx]
            m = res[e["spec"]]
            if core.close(v, m["agg"]):
                continue
            if "code" in e and core.close(v, res[e["code"]]["agg"]):
                bad_f5 = bad_f5 or (kidx, v, m["agg"])
            elif "weak" in e and (core.close(v, res[e["weak"]]["agg"]) or ("weakcode" in e and core.close(v, res[e["weakcode"]]["agg"]))):
                bad_weak = bad_weak or (kidx, v, m["agg"])
            else:
                bad_val = bad_val or (kidx, v, m["agg"])
        if bad_val:
            ctx.fail(batch, kind, site, "value", cj, observed={"index": list(bad_val[0]), "value": bad_val[1]},
                     expected=bad_val[2], tags=dict(dtags, mode=c["mode"], pad=c["pad"]))
        elif bad_weak:
            ctx.fail(batch, kind, WEAK_SITE, WEAK_SIG, cj, observed={"index": list(bad_weak[0]), "value": bad_weak[1]},
                     expected=bad_weak[2], tags=dict(dtags, **dict(WEAK_TAGS, entry=site)))
        elif bad_f5:
            ctx.fail(batch, kind, F5_SITE, F5_SIG, cj, observed={"index": list(bad_f5[0]), "value": bad_f5[1]},
                     expected=bad_f5[2], tags=dict(dtags, **dict(F5_TAGS, entry=site)))
        elif kind == "property" and (has_dtype(c) or c.get("thrtype")):
            # every value is the expected one: the same values stored as float64 (bool for the binary entry point; the
            # threshold as a Python float) give the same result, element for element
            try:
                r64 = impl_multi(as_float64(c), fx, ox).transpose(*keep)
                a, b = np.asarray(r.values, dtype=float).ravel(), np.asarray(r64.values, dtype=float).ravel()
                if a.shape != b.shape or not all(core.close_ff(x, y) for x, y in zip(a, b)):
                    ctx.fail(batch, kind, site, "storage-dtype-changes-result", cj, observed=a.tolist(), expected=b.tolist(),
                             tags=dict(dtags, mode=c["mode"], pad=c["pad"]))
            except Exception as ex:
                ctx.fail(batch, kind, site, "exception", cj, observed=core.exc_class(ex) + ": " + str(ex)[:200],
                         expected="a value (float64 storage)", tags=dtags)


# ----------------------------------------------------------------------------- the property oracle
def flipped(c, how):
    f = np.array(c["f"], dtype=float)
    o = np.array(c["o"], dtype=float)
    d = dict(c)
    if how == "flip":
        d["f"], d["o"] = f[::-1, ::-1].tolist(), o[::-1, ::-1].tolist()
    elif how == "flipud":
        d["f"], d["o"] = f[::-1, :].tolist(), o[::-1, :].tolist()
    elif how == "transpose":
        d["f"], d["o"] = f.T.tolist(), o.T.tolist()
        d["h"], d["w"] = c["w"], c["h"]
    elif how == "swap":
        d["f"], d["o"] = c["o"], c["f"]
        if "dtf" in c or "dto" in c:
            d["dtf"], d["dto"] = c.get("dto"), c.get("dtf")
    elif how == "nan-to-nonevent":
        # a NaN cell is a non-event: replacing it by a value that is no event changes nothing
        non = {"gt": c["thr"] - 1.0, "ge": c["thr"] - 1.0, "lt": c["thr"] + 1.0, "le": c["thr"] + 1.0}[c["op"]]
        if has_dtype(c):
            non = f32(non)        # NaN occurs in float storage only; the replacement must be a float32 number as well
        d["f"] = np.where(np.isnan(f), non, f).tolist()
        d["o"] = np.where(np.isnan(o), non, o).tolist()
    return d


def check_singles(ctx, cases, batch="single-vs-window-count", relations=True):
    """the property on fss_2d_single_field: value = direct window count (Lean Spec, exact), range, symmetry,
    identical fields, invariances.  Returns the number of failures recorded."""
    n0 = len(ctx.failures)
    rng = ctx.rng
    ops = []
    plan = []
    for c in cases:
        entry = {"c": c, "spec": len(ops)}
        ops.append(spec_op(c, prop_ext(c)))
        if odd_pad(c):
            entry["code"] = len(ops)
            ops.append(spec_op(c, "code"))
        if weak_applies(c):
            wf = [(weak_events(c["f"], c.get("dtf"), c["thr"], c["op"]), weak_events(c["o"], c.get("dto"), c["thr"], c["op"]))]
            entry["weak"] = [len(ops)]
            ops.append(spec_op(c, prop_ext(c), fields=wf, op="gt", thr=0.5))
            if odd_pad(c):
                entry["weak"].append(len(ops))
                ops.append(spec_op(c, "code", fields=wf, op="gt", thr=0.5))
        rel = []
        if relations:
            hows = ["swap"] + rng.sample(["flip", "flipud", "transpose", "nan-to-nonevent"], 2)
            for how in hows:
                d = flipped(c, how)
                e2 = {"how": how, "c": d}
                if odd_pad(c) and how in ("flip", "flipud", "transpose"):
                    e2["code"] = len(ops)
                    ops.append(spec_op(d, "code"))
                rel.append(e2)
        entry["rel"] = rel
        plan.append(entry)
    res = core.run_driver("C16", ops)
    for e in plan:
        c = e["c"]
        cj = case_json(c)
        nev = n_events(c, c["f"]) + n_events(c, c["o"])
        ctx.case(batch, cj, nontrivial=nev > 0)
        ctx.tag("oracle-" + ("pad" if c["pad"] else "nopad") + ("-odd" if (c["h"] % 2 or c["w"] % 2) else "-even"))
        dtype_tags(ctx, c)
        base_tags = dict(dtype_fail_tags(c), pad=c["pad"], op=c["op"], odd_window=bool(c["h"] % 2 or c["w"] % 2))
        try:
            v = impl_single(c)
        except Exception as ex:
            ctx.fail(batch, "property", "fss_2d_single_field", "exception", cj, observed=core.exc_class(ex) + ": " + str(ex)[:200],
                     expected=res[e["spec"]]["single"][0], tags=base_tags)
            continue
        spec = res[e["spec"]]["single"][0]
        code = res[e["code"]]["single"][0] if "code" in e else None
        is_f5 = code is not None and core.close(v, code)
        if not core.close(v, spec):
            if is_f5:
                ctx.fail(batch, "property", F5_SITE, F5_SIG, cj, observed=v, expected=spec,
                         tags=dict(dtype_fail_tags(c), **dict(F5_TAGS, entry="fss_2d_single_field")), theorem="fss_pad_counterexample")
            elif any(core.close(v, res[i]["single"][0]) for i in e.get("weak", [])):
                ctx.fail(batch, "property", WEAK_SITE, WEAK_SIG, cj, observed=v, expected=spec,
                         tags=dict(dtype_fail_tags(c), **dict(WEAK_TAGS, entry="fss_2d_single_field")))
            else:
                ctx.fail(batch, "property", "fss_2d_single_field", "value-differs-from-window-count", cj, observed=v, expected=spec,
                         tags=base_tags, theorem="fss_nopad_eq_spec" if not c["pad"] else "fss_pad_partial")
            continue
        if not (0.0 <= v <= 1.0):
            ctx.fail(batch, "property", "fss_2d_single_field", "out-of-range", cj, observed=v, expected="[0,1]", tags=base_tags)
        if has_dtype(c) or c.get("thrtype"):
            # the same values stored as float64 (threshold as a Python float) give the same result
            try:
                v64 = impl_single(as_float64(c))
                if not core.close_ff(v, v64):
                    ctx.fail(batch, "property", "fss_2d_single_field", "storage-dtype-changes-result", cj, observed=v, expected=v64,
                             tags=base_tags)
            except Exception as ex:
                ctx.fail(batch, "property", "fss_2d_single_field", "exception", cj, observed=core.exc_class(ex) + ": " + str(ex)[:200],
                         expected="a value (float64 storage)", tags=base_tags)
        same = np.array_equal(np.nan_to_num(np.array(c["f"], dtype=float), nan=12345.0), np.nan_to_num(np.array(c["o"], dtype=float), nan=12345.0))
        if same and n_events(c, c["f"]) > 0 and not core.close(v, core.Fraction(1)):
            ctx.fail(batch, "property", "fss_2d_single_field", "identical-fields-not-1", cj, observed=v, expected=1, tags=base_tags)
        for r in e["rel"]:
            try:
                v2 = impl_single(r["c"])
            except Exception as ex:
                ctx.fail(batch, "property", "fss_2d_single_field", "exception", case_json(r["c"]), observed=core.exc_class(ex), expected=v,
                         tags=base_tags)
                continue
            if core.close_ff(v, v2):
                continue
            if "code" in r and is_f5 and core.close(v2, res[r["code"]]["single"][0]):
                ctx.fail(batch, "property", F5_SITE, F5_SIG, cj, observed={"value": v, r["how"]: v2}, expected="equal",
                         tags=dict(dtype_fail_tags(c), **dict(F5_TAGS, entry="fss_2d_single_field", relation=r["how"])),
                         theorem="fss_pad_counterexample")
            else:
                ctx.fail(batch, "property", "fss_2d_single_field", "not-invariant-under-" + r["how"], cj,
                         observed={"value": v, r["how"]: v2}, expected="equal", tags=base_tags)
    return len(ctx.failures) - n0


def check_binary_eq(ctx, mcases, batch="binary-entry-equals-thresholding"):
    """fss_2d_binary(fcst > thr, obs > thr) == fss_2d(fcst, obs, thr, np.greater) on the same arrays and request"""
    for c in mcases:
        fx, ox, keep, red, groups = multi_groups(c)
        ctx.case(batch, c, nontrivial=True)
        dtype_tags(ctx, c)
        try:
            c1 = dict(c, binary=False)
            r1 = impl_multi(c1, fx, ox)
            with np.errstate(all="ignore"):
                bf = xr.DataArray(OPS[c["op"]](fx.values, c["thr"]), dims=fx.dims)
                bo = xr.DataArray(OPS[c["op"]](ox.values, c["thr"]), dims=ox.dims)
            r2 = impl_multi(dict(c, binary=True), bf, bo)
        except Exception as ex:
            ctx.fail(batch, "property", "fss_2d_binary", "exception", c, observed=core.exc_class(ex) + ": " + str(ex)[:200], expected="a value",
                     tags=dtype_fail_tags(c))
            continue
        a = np.asarray(r1.transpose(*keep).values, dtype=float).ravel()
        b = np.asarray(r2.transpose(*keep).values, dtype=float).ravel()
        if a.shape != b.shape or not all(core.close_ff(x, y) for x, y in zip(a, b)):
            if weak_applies(c):
                # F-C16b: fss_2d on the float32 field equals the binary entry point on the events of the ROUNDED threshold
                try:
                    wf = xr.DataArray(weak_events(fx.values, c.get("dtf"), c["thr"], c["op"]), dims=fx.dims)
                    wo = xr.DataArray(weak_events(ox.values, c.get("dto"), c["thr"], c["op"]), dims=ox.dims)
                    w = np.asarray(impl_multi(dict(c, binary=True), wf, wo).transpose(*keep).values, dtype=float).ravel()
                except Exception:
                    w = None
                if w is not None and a.shape == w.shape and all(core.close_ff(x, y) for x, y in zip(a, w)):
                    ctx.fail(batch, "property", WEAK_SITE, WEAK_SIG, c, observed=a.tolist(), expected=b.tolist(),
                             tags=dict(dtype_fail_tags(c), **dict(WEAK_TAGS, entry="fss_2d")))
                    continue
            ctx.fail(batch, "property", "fss_2d_binary", "differs-from-thresholding", c, observed=b.tolist(), expected=a.tolist(),
                     tags=dict(dtype_fail_tags(c), pad=c["pad"]))


AGG_EXAMPLE = dict(kind="multi", binary=False, H=1, W=2, h=1, w=1, pad=False, thr=0.5, op="gt", sizes={"t": 2},
                   fdims=["t", "y", "x"], odims=["t", "y", "x"],
                   fdata=[[[1.0, 1.0]], [[1.0, 0.0]]], odata=[[[1.0, 1.0]], [[0.0, 0.0]]], mode="none", req=None)
# field 1: identical (score 1); field 2: one forecast event, no observed event (score 0): mean of scores = 1/2,
# score of the pooled sums = 1 - 1/(2 + 3) = 4/5


# ---- large dense fields in narrow storage: more events than the storage dtype can count (int8: > 127, uint8: > 255,
# bool: > 1, float16: > 2048 — the integers a float16 holds exactly).  The window counts are computed from the EVENT
# field, never in the storage dtype of the data, so the score is the one of the same values stored as float64.
LARGE = [("int8", (12, 11)), ("int16", (9, 15)), ("bool", (7, 6)), ("float32", (12, 11)), ("int64", (12, 11)),
         ("uint8", (17, 16)), ("float16", (46, 46))]
F16_TAGS = {"defect": "F-C16a", "binary_storage": "float16", "check_boolean": False}
F16_SITE = "fss_2d_binary"
F16_SIG = "window-counts-accumulated-in-float16"


def gen_large(rng, dt, shape, win=None, pad=None):
    H, W = shape
    f = np.ones((H, W))
    o = np.ones((H, W))
    for a in (f, o):
        for _ in range(rng.randint(1, 4)):
            a[rng.randrange(H), rng.randrange(W)] = 0.0
    if win is None:
        win = rng.choice([(H, W), (1, 1), (2, 2), (rng.randint(1, H), rng.randint(1, W)), (2 * rng.randint(1, H // 2), 2 * rng.randint(1, W // 2))])
    c = dict(kind="large", f=f.tolist(), o=o.tolist(), thr=0.5, op="gt", h=win[0], w=win[1],
             pad=(rng.random() < 0.5) if pad is None else pad, dt=dt)
    if np.dtype(dt).kind == "u":
        c["unsigned"] = True
    return c


def impl_large_binary(c, dt):
    from scores.spatial import fss_2d_binary
    f, o = store(c["f"], dt), store(c["o"], dt)
    kw = {} if dt == "bool" else {"check_boolean": False}
    with np.errstate(all="ignore"), warnings.catch_warnings():
        warnings.simplefilter("ignore")
        r = fss_2d_binary(xr.DataArray(f, dims=["y", "x"]), xr.DataArray(o, dims=["y", "x"]), window_size=(c["h"], c["w"]),
                          spatial_dims=("".join(["y"]), "".join(["x", ""])), zero_padding=c["pad"], **kw)
    return float(r.values)


def check_large(ctx, cases, batch=None):
    """0/1 fields with many events stored in a narrow dtype: fss_2d_single_field (threshold 0.5) and the binary entry
    point on the stored 0/1 field (check_boolean=False unless bool) equal the exact window-count spec"""
    ops, plan = [], []
    for c in cases:
        e = {"c": c, "spec": len(ops)}
        ops.append(spec_op(c, prop_ext(c)))
        if odd_pad(c):
            e["code"] = len(ops)
            ops.append(spec_op(c, "code"))
        plan.append(e)
    res = core.run_driver("C16", ops)
    for e in plan:
        c = e["c"]
        dt = c["dt"]
        b = batch or ("large-field-narrow-storage" + ("-unsigned" if c.get("unsigned") else ""))
        cj = case_json(c)
        ctx.case(b, cj, nontrivial=True)
        ctx.tag("large-field:" + dt)
        spec = res[e["spec"]]["single"][0]
        code = res[e["code"]]["single"][0] if "code" in e else None
        tags = dict({"dt": dt, "pad": c["pad"]}, **({"storage": "unsigned"} if c.get("unsigned") else {}))
        runs = []
        # (a float16 field under a float64 threshold is thresholded exactly as well, so both entry points run for every dt)
        runs.append(("fss_2d_single_field", lambda: impl_single(dict(c, kind="single", dtf=dt, dto=dt))))
        runs.append(("fss_2d_binary", lambda: impl_large_binary(c, dt)))
        for site, fn in runs:
            try:
                v = fn()
            except Exception as ex:
                ctx.fail(b, "property", site, "exception", cj, observed=core.exc_class(ex) + ": " + str(ex)[:200], expected=spec,
                         tags=tags)
                continue
            if core.close(v, spec):
                continue
            if code is not None and core.close(v, code):
                ctx.fail(b, "property", F5_SITE, F5_SIG, cj, observed=v, expected=spec, tags=dict(tags, **dict(F5_TAGS, entry=site)),
                         theorem="fss_pad_counterexample")
                continue
            # known defect F-C16a: ONLY the binary entry point on a float16 0/1 field with more than 2048 events, and only
            # when the same field stored as bool gives the expected value (resp. the F5 value for odd padded windows)
            if site == "fss_2d_binary" and dt == "float16" and max(np.sum(c["f"]), np.sum(c["o"])) > 2048:
                try:
                    vb = impl_large_binary(c, "bool")
                except Exception:
                    vb = None
                if vb is not None and (core.close(vb, spec) or (code is not None and core.close(vb, code))):
                    ctx.fail(b, "property", F16_SITE, F16_SIG, cj, observed=v, expected=spec, tags=dict(tags, **F16_TAGS))
                    continue
            ctx.fail(b, "property", site, "value-differs-from-window-count", cj, observed=v, expected=spec, tags=tags)


def large_cases(ctx, boost=False):
    rng = ctx.rng
    out = []
    for dt, shape in LARGE:
        big = shape[0] * shape[1] > 1000
        out.append(gen_large(rng, dt, shape, win=shape, pad=False))      # one window = the whole field: count = #events
        for _ in range((1 if big else 3) * (2 if (boost or ctx.thorough) else 1)):
            out.append(gen_large(rng, dt, shape))
    return out


# ---- large windows: a window holding more events than a narrow accumulator can count or SQUARE exactly.  The sums of the
# score are sums of SQUARED window counts, so the critical window areas are those where the count or its square leaves a
# number type: count^2 > 2^24 (float32 squares; area > 4096), count > 32767 (int16), count^2 > 2^31 (int32 squares;
# area > 46340), count > 65535 (uint16), [thorough] count > 2^24 (float32 counts).  The small-shape streams (windows <= 9x9)
# never get there.  The fields are described, not listed: every cell is an event except the listed `holes` and one
# rectangular `block` of non-events, so the replay stays small; the expected value is the window-count definition in exact
# integer arithmetic by an independent closed form (window ∩ field area − holes in the window − window ∩ block area, no
# summed-area table), with the property's symmetric zero extension for the padded mode.  This class is compared by the
# oracle only (the Lean spec counts cell by cell: 10^9 steps for one padded 220x220 window image).
BIG_AREAS = [(2 ** 12, "float32-squares"), (2 ** 15 - 1, "int16-counts"), (46340, "int32-squares"), (2 ** 16 - 1, "uint16-counts")]
BIG_DT = ["float64", "float64", "float32", "int8", "bool", "int64", "int32", "uint8"]
BIG_ENTRIES = ["single", "fss_2d", "binary"]


def big_array(c, which):
    """(values, events) of the described field: event cells hold `hi`, the holes and the block hold `lo`"""
    H, W = c["H"], c["W"]
    ev = np.ones((H, W), dtype=bool)
    blk = c.get("block_" + which)
    if blk:
        ev[blk[0]:blk[1], blk[2]:blk[3]] = False
    for (i, j) in c["holes_" + which]:
        ev[i, j] = False
    hi, lo = (1.0, 0.0) if c["op"] in ("gt", "ge") else (0.0, 1.0)
    return np.where(ev, hi, lo), ev


def big_counts(c, which, ext):
    """the window-count image of the described field by the closed form, exact (int64; every count <= H*W < 2^31, the sums
    of squares < 2^62 are taken as Python integers).  ext: "none" | "sym" (⌊h/2⌋ on each side) | "code" (⌊h/2⌋ before,
    h − ⌊h/2⌋ after)"""
    H, W, h, w = c["H"], c["W"], c["h"], c["w"]
    pt, pb, pl, pr = {"none": (0, 0, 0, 0), "sym": (h // 2, h // 2, w // 2, w // 2),
                      "code": (h // 2, h - h // 2, w // 2, w - w // 2)}[ext]
    r0 = np.arange(pt + H + pb + 1 - h, dtype=np.int64) - pt          # first field row of the window (may be negative)
    c0 = np.arange(pl + W + pr + 1 - w, dtype=np.int64) - pl

    def overlap(a0, n, lo, hi):       # number of integers in [a0, a0+n) ∩ [lo, hi)
        return np.clip(np.minimum(a0 + n, hi) - np.maximum(a0, lo), 0, None)

    img = np.outer(overlap(r0, h, 0, H), overlap(c0, w, 0, W))
    blk = c.get("block_" + which)
    if blk:
        img = img - np.outer(overlap(r0, h, blk[0], blk[1]), overlap(c0, w, blk[2], blk[3]))
    for (i, j) in sorted({(int(i), int(j)) for i, j in c["holes_" + which]}):
        if blk and blk[0] <= i < blk[1] and blk[2] <= j < blk[3]:
            continue                  # already a non-event
        img = img - np.outer(((r0 <= i) & (i < r0 + h)).astype(np.int64), ((c0 <= j) & (j < c0 + w)).astype(np.int64))
    return img


def big_expected(c, ext):
    pf, po = big_counts(c, "f", ext), big_counts(c, "o", ext)
    assert pf.min() >= 0 and po.min() >= 0 and max(pf.max(), po.max()) < 2 ** 31 and pf.size < 2 ** 31
    sf = sum(int(x) for x in np.sum(pf * pf, axis=1))
    so = sum(int(x) for x in np.sum(po * po, axis=1))
    sd = sum(int(x) for x in np.sum((po - pf) * (po - pf), axis=1))
    return core.Fraction(0) if sf + so == 0 else 1 - core.Fraction(sd, sf + so)


def impl_big(c, swap=False):
    from scores.spatial import fss_2d, fss_2d_binary, fss_2d_single_field
    (fv, fe), (ov, oe) = big_array(c, "f"), big_array(c, "o")
    if swap:
        fv, fe, ov, oe = ov, oe, fv, fe
    dt = c.get("dt")
    sd = ("".join(["y"]), "".join(["", "x"]))
    with np.errstate(all="ignore"), warnings.catch_warnings():
        warnings.simplefilter("ignore")
        if c["entry"] == "binary":
            if dt in (None, "float64", "bool"):
                fb, ob, kw = fe, oe, {}
            else:
                fb, ob, kw = fe.astype(dt), oe.astype(dt), {"check_boolean": False}
            return float(fss_2d_binary(xr.DataArray(fb, dims=["y", "x"]), xr.DataArray(ob, dims=["y", "x"]),
                                       window_size=(c["h"], c["w"]), spatial_dims=sd, zero_padding=c["pad"], **kw).values)
        f, o = (fv, ov) if dt in (None, "float64") else (fv.astype(dt), ov.astype(dt))      # 0.0 / 1.0: exact in every dtype
        if c["entry"] == "fss_2d":
            return float(fss_2d(xr.DataArray(f, dims=["y", "x"]), xr.DataArray(o, dims=["y", "x"]), event_threshold=0.5,
                                window_size=(c["h"], c["w"]), spatial_dims=sd, zero_padding=c["pad"],
                                threshold_operator=OPS[c["op"]]).values)
        return float(fss_2d_single_field(f, o, event_threshold=0.5, window_size=(c["h"], c["w"]), zero_padding=c["pad"],
                                         threshold_operator=OPS[c["op"]]))


def gen_big(rng, area, label, pad, k, huge=False):
    """a field only a few cells larger than a window whose area just exceeds `area`"""
    side = math.isqrt(area) + 1
    if huge:
        h = w = side
    else:
        h = side + rng.randint(0, 6)
        w = -(-(area + 1) // h) + rng.randint(0, 6)          # h * w > area
        if pad and rng.random() < 0.75:                     # the padded clause of the property: even windows
            h, w = h + h % 2, w + w % 2
    full = rng.random() < 0.2
    H, W = (h, w) if full else (h + rng.randint(1, 5), w + rng.randint(1, 5))

    def holes():
        return sorted({(rng.randrange(H), rng.randrange(W)) for _ in range(rng.randint(0, 5))})

    def block():
        if rng.random() < 0.4:       # nearly everything is a non-event: the partner of a dense field, score far from 1
            return [rng.randint(0, 3), H - rng.randint(0, 3), rng.randint(0, 3), W - rng.randint(0, 3)]
        i0, j0 = rng.randrange(H), rng.randrange(W)
        return [i0, min(H, i0 + rng.randint(1, max(1, H // 3))), j0, min(W, j0 + rng.randint(1, max(1, W // 3)))]

    c = dict(kind="bigwin", H=H, W=W, h=h, w=w, pad=bool(pad), thr=0.5, op=list(OPS)[k % 4], boundary=label,
             holes_f=holes(), holes_o=holes(), dt=BIG_DT[k % len(BIG_DT)], entry=BIG_ENTRIES[k % 3])
    r = rng.random()
    if r < 0.25:
        c["holes_o"] = c["holes_f"]                          # identical fields with events: the score is 1
    elif r < 0.85:
        c["block_" + rng.choice("fo")] = block()             # far from 1: the three sums all matter
    if c["entry"] == "binary":
        c["op"] = "gt"
    if c["dt"] in UNSIGNED_DT:
        c["unsigned"] = True
    if huge:
        c["dt"], c["entry"] = "float32", ("binary" if k % 2 else "single")
        c.pop("unsigned", None)
    return c


def big_cases(ctx, boost=False):
    rng = ctx.rng
    out, k = [], 0
    reps = 3 if (ctx.thorough or boost) else 1
    for _ in range(reps):
        for area, label in BIG_AREAS:
            for pad in (False, True):
                for _ in range(2):
                    out.append(gen_big(rng, area, label, pad, k))
                    k += 1
    # the int32-squares boundary through every entry point and both paddings with an all-event pair (the score is exactly 1)
    for k2, (entry, pad) in enumerate(itertools.product(BIG_ENTRIES, (False, True))):
        c = gen_big(rng, 46340, "int32-squares", pad, k2)
        c.update(entry=entry, dt="float64", holes_f=[], holes_o=[], op="gt")
        c.pop("block_f", None), c.pop("block_o", None), c.pop("unsigned", None)
        out.append(c)
    if ctx.thorough:
        # more events in one window than float32 counts exactly (2^24): 0/1 fields stored as float32, no padding
        for k3 in range(2):
            out.append(gen_big(rng, 2 ** 24, "float32-counts", False, k3, huge=True))
    return out


def check_bigwin(ctx, cases, batch="large-window-vs-window-count"):
    for c in cases:
        b = batch + ("-unsigned" if c.get("unsigned") else "")
        ctx.case(b, c, nontrivial=True)
        ctx.tag("large-window:" + str(c.get("boundary")))
        ctx.tag("large-window-entry:" + c["entry"])
        ctx.tag("large-window-" + ("pad" if c["pad"] else "nopad"))
        if c.get("dt"):
            ctx.tag("dtf:" + c["dt"])
        site = {"single": "fss_2d_single_field", "fss_2d": "fss_2d", "binary": "fss_2d_binary"}[c["entry"]]
        tags = dict({"pad": c["pad"], "dt": c.get("dt"), "boundary": c.get("boundary"), "window_area": c["h"] * c["w"]},
                    **({"storage": "unsigned"} if c.get("unsigned") else {}))
        spec = big_expected(c, prop_ext(c))
        code = big_expected(c, "code") if odd_pad(c) else None
        try:
            v = impl_big(c)
        except Exception as ex:
            ctx.fail(b, "property", site, "exception", c, observed=core.exc_class(ex) + ": " + str(ex)[:200], expected=spec, tags=tags)
            continue
        if not core.close(v, spec):
            if code is not None and core.close(v, code):
                ctx.fail(b, "property", F5_SITE, F5_SIG, c, observed=v, expected=spec, tags=dict(tags, **dict(F5_TAGS, entry=site)),
                         theorem="fss_pad_counterexample")
            else:
                ctx.fail(b, "property", site, "value-differs-from-window-count", c, observed=v, expected=spec, tags=tags,
                         theorem="fss_nopad_eq_spec" if not c["pad"] else "fss_pad_partial")
            continue
        if not (0.0 <= v <= 1.0):
            ctx.fail(b, "property", site, "out-of-range", c, observed=v, expected="[0,1]", tags=tags)
        same = c["holes_f"] == c["holes_o"] and c.get("block_f") == c.get("block_o")
        if same and big_array(c, "f")[1].any() and not core.close(v, core.Fraction(1)):
            ctx.fail(b, "property", site, "identical-fields-not-1", c, observed=v, expected=1, tags=tags)
        if c["H"] * c["W"] <= 10 ** 6:
            try:
                v2 = impl_big(c, swap=True)
                if not core.close_ff(v, v2):
                    ctx.fail(b, "property", site, "not-invariant-under-swap", c, observed={"value": v, "swap": v2}, expected="equal",
                             tags=tags)
            except Exception as ex:
                ctx.fail(b, "property", site, "exception", c, observed=core.exc_class(ex) + ": " + str(ex)[:200], expected=v, tags=tags)


def oracle(ctx, boost):
    per = ctx.n(2, 3)
    cases = [dict(F5_WITNESS)]
    cases += single_stream(ctx, per, ctx.n(400, 3000), boost=boost)
    if ctx.thorough or boost:
        bs = binary_stream(ctx)
        cases += bs if ctx.thorough else ctx.rng.sample(bs, min(len(bs), 1500))
    check_singles(ctx, cases)
    mcases = [AGG_EXAMPLE] + [gen_multi(ctx.rng, binary=(i % 4 == 3)) for i in range(ctx.n(150, 1200) * (3 if boost else 1))]
    run_multi(ctx, mcases, "multi-vs-pooled-window-count", "property")
    check_binary_eq(ctx, [gen_multi(ctx.rng) for _ in range(ctx.n(60, 500))])
    # ---- storage dtypes of the fields
    check_singles(ctx, dtype_stream(ctx, SIGNED_DT, ctx.n(1, 2), ctx.n(250, 2500), boost=boost), batch="single-vs-window-count-dtype")
    check_singles(ctx, dtype_exhaustive(ctx, SIGNED_DT), batch="single-vs-window-count-dtype-exhaustive", relations=ctx.thorough)
    check_singles(ctx, dtype_stream(ctx, UNSIGNED_DT, 1, ctx.n(80, 800), unsigned=True, boost=boost)
                  + dtype_exhaustive(ctx, UNSIGNED_DT, unsigned=True), batch="single-vs-window-count-unsigned")
    k = 3 if boost else 1
    mcases = [gen_multi(ctx.rng, binary=(i % 4 == 3), dt=SIGNED_DT[i % len(SIGNED_DT)]) for i in range(ctx.n(120, 1200) * k)]
    run_multi(ctx, mcases, "multi-vs-pooled-window-count-dtype", "property")
    mcases = [gen_multi(ctx.rng, binary=(i % 4 == 3), dt=UNSIGNED_DT[i % 2], unsigned=True) for i in range(ctx.n(40, 400) * k)]
    run_multi(ctx, mcases, "multi-vs-pooled-window-count-unsigned", "property")
    check_binary_eq(ctx, [gen_multi(ctx.rng, dt=SIGNED_DT[i % len(SIGNED_DT)]) for i in range(ctx.n(60, 500))],
                    batch="binary-entry-equals-thresholding-dtype")
    check_binary_eq(ctx, [gen_multi(ctx.rng, dt=UNSIGNED_DT[i % 2], unsigned=True) for i in range(ctx.n(20, 200))],
                    batch="binary-entry-equals-thresholding-unsigned")
    check_large(ctx, large_cases(ctx, boost))
    check_bigwin(ctx, big_cases(ctx, boost))


def replay(ctx, payload):
    case = payload["case"]
    sub = core.Ctx("C16", "quick", payload.get("seed", 0))
    if case.get("kind") == "single":
        c = dict(case)
        c["f"] = arr(case["f"]).tolist()
        c["o"] = arr(case["o"]).tolist()
        c["thr"] = float(core.parse_fl(case["thr"])) if isinstance(case["thr"], str) else float(case["thr"])
        for seed in range(4):     # the relations draw two of four transformations: cover all of them
            sub.rng.seed(seed)
            check_singles(sub, [c])
    elif case.get("kind") == "large":
        c = dict(case)
        c["f"] = arr(case["f"]).tolist()
        c["o"] = arr(case["o"]).tolist()
        c["thr"] = float(core.parse_fl(case["thr"])) if isinstance(case["thr"], str) else float(case["thr"])
        check_large(sub, [c])
    elif case.get("kind") == "bigwin":
        check_bigwin(sub, [dict(case)])
    elif case.get("kind") == "multi":
        if str(payload.get("batch", "")).startswith("binary-entry-equals-thresholding"):
            check_binary_eq(sub, [case])
        else:
            run_multi(sub, [case], "replay", "property")
    fails = [f for f in sub.failures if f["kind"] == "property"]
    sig = payload.get("signature")
    return any(f["signature"] == sig for f in fails) if sig else bool(fails)
