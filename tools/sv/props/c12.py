"""C12 — FIRM and risk-matrix scores are the stated sums of fixed-risk decision penalties."""
from __future__ import annotations

import math
import os

import numpy as np
import xarray as xr

from sv import core

PROPERTY = "C12"
GEN = ["Firm", "Murphy"]
PROPS = ["ScoresVerif/Props/C12.lean", "ScoresVerif/Props/C12Scaling.lean"]
DRIVER_DEPS = ["ScoresVerif.Driver.C12"]
AUDIT_FILES = ["ScoresVerif/Lemmas/Firm.lean", "ScoresVerif/Lemmas/C12Scaling.lean", "ScoresVerif/Spec/Firm.lean",
               "ScoresVerif/Model/Firm.lean"]
LEVEL = "proof"
TRUSTED = ["hand model of the firm loop / Python sum / mean(skipna), of the risk-matrix double sum, of "
           "matrix_weights_to_array and _scaling_to_weight_matrix in Model/Firm.lean (tied by correspondence only)"]
ASSUMPTIONS = ["dyadic forecasts / observations / thresholds / weights so float + - * and comparisons are exact "
               "(probability thresholds of the risk matrix are arbitrary floats sent as exact rationals; sums to 1e-9)",
               "storage dtypes (uint8/16/32, int8/16/32/64, float32/64 for fcst / obs / threshold arrays; Python int / float / numpy "
               "scalar thresholds): the Lean Spec is evaluated on the exact VALUES (oracle only, the model has no dtypes); every "
               "threshold / discount value is representable in the operands' dtypes (non-negative next to unsigned data)",
               "infinite forecasts / observations / thresholds: expected = Spec.Firm.firmCaseX, the stated product "
               "w*(1-alpha)*scale*1[false alarm] + w*alpha*scale*1[miss] in extended-real Fl arithmetic (0*inf = nan, inf-inf = nan): "
               "with discounting NaN is EXPECTED where the product is inf*0 (notes/C12.md N3), the penalty or 0 elsewhere; "
               "FIRM = sum w*Murphy is checked on them only where both sides are defined (murphy_skip_inf)",
               "severity labels are distinct, all str or all int, in ANY order (sent to Lean as their str())",
               "the two sequences of firm in any container (list, tuple, ndarray float64 / float32 / int64, pandas Series with default / "
               "permuted / filtered / duplicated / negative / float / string index or dtype object holding DataArrays, pandas Index, "
               "1-D DataArray): the k-th weight goes with the k-th threshold in ITERATION order (position), never by index label; "
               "expected = Lean Spec on the (threshold, weight) pairs by position (oracle and model alike, containers have no model)",
               "weights=None (apply_weights belongs to C03); equal coordinate label sets in any stored order",
               "dimension-name arguments are freshly built str objects (F10 regression guard)"]
MANIFEST = dict(
    level="proof",
    text="Kernel-checked Lean theorems about _single_category_score and the per-cell part of _risk_matrix_score, regenerated "
         "from multicategorical_impl.py / risk_matrix.py on every run: for all finite inputs the three FIRM variables per "
         "threshold are (1-alpha)*s*1[false alarm] and alpha*s*1[miss] with closedness by threshold_assignment and "
         "s = 1 / min(distance, d) / distance for discount 0 / finite / inf (0 means no discount), firm = over + under for all "
         "inputs, NaN propagation, the per-case value is the weighted sum over thresholds, and with 'lower' it coincides with the "
         "weighted sum of the Murphy quantile / Huber(a=d) / expectile elementary scores computed by murphy_impl.py's kernels "
         "(without discount the kernel equals the extended-real Spec for EVERY forecast / observation / threshold incl. +-inf, "
         "with any discount for an infinite forecast against finite observation and threshold: Props/C12.lean section 6) "
         "(with 'upper': their left limit theta -> t from below, for every discount kind); a risk-matrix case is the double sum of weight*p (forecast at/above "
         "p, event absent) and weight*(1-p) (below p, event present), NaN anywhere gives NaN (skipna=False read off the source); "
         "matrix_weights_to_array labels row i with the i-th largest threshold for any order of the supplied coordinates; "
         "the model of _check_firm_inputs / the value checks of _check_risk_matrix_score_inputs raises exactly outside the documented "
         "domains (0 < alpha < 1 both boundaries excluded, weights > 0, discount >= 0, >= 1 threshold, equal lengths, assignment "
         "in {upper, lower}; fcst in [0,1], obs in {0,1,nan}, probability thresholds strictly in (0,1)) and the implementation is "
         "probed against those domains on a deterministic boundary grid (values exactly on each boundary, int / float / numpy "
         "scalar types, every array position) plus a random one/two-fault stream.",
    note="Trusted: Lean kernel; py2lean translator; SV.Fl (no rounding); hand model of the firm loop/sum/mean, of the risk-matrix "
         "reduction, of matrix_weights_to_array and of _scaling_to_weight_matrix (differential correspondence only). "
         "_scaling_to_weight_matrix: the literal model of the Appendix-B loop is proved equal to the level-set (staircase-corner) "
         "specification Spec.Firm.scalingWeights on the documented domain with rows-1 <= number of assessment weights "
         "(scaling_weights_eq_spec), and on the whole documented domain to the corner weights cut off above row height "
         "len(assessment_weights) (scaling_weights_eq_cut: it loses level crossovers when rows-1 > number of levels, "
         "notes/C12.md N1, scaling_eq_spec_fails_outside_domain; tagged in the evidence, not failed); consequences: non-negativity, "
         "total mass, risk matrix score with these weights = sum over levels of w_l * (score of the level's corner decision points); "
         "matrix_weights_to_array / weights_from_warning_scaling are looked up BY LABEL (row = i-th largest threshold, column = "
         "j-th supplied severity label: matrix_weights_lookup) with labels in any order (descending ints, strings whose order differs "
         "from the sorted order), and risk_matrix_score with the weights built by either constructor = the Lean double sum over "
         "(i-th largest threshold, j-th label as given); the implementation is compared with the Lean Spec through the driver. "
         "FIRM on integer / unsigned / float32 storage: Lean Spec on the values (oracle only). "
         "FIRM with +-inf forecasts / observations / thresholds: Lean Spec firmCaseX (product form in Fl arithmetic) through the "
         "driver, the translated kernel in the model already computes in Fl; discounting with an infinite observation / threshold "
         "gives NaN by inf*0 in Spec and code alike (recorded as N3, not failed). "
         "weights= (apply_weights) belongs to C03.",
    technique="Lean 4 theorems over translator-regenerated kernels (two modules tied to a third through C11) + hand model; "
              "differential correspondence; exact-rational Spec oracle; relation FIRM = sum w * murphy_score between implementation runs",
    design="6/C12")
RULE = ("FIRM: 2-D (a x b) dyadic fcst/obs (30 % obs copied from fcst), 1-3 thresholds as scalars or DataArrays over a subset of "
        "the dims with 50 % of values copied from fcst/obs and NaN, weights scalar or DataArray with NaN, alpha dyadic, "
        "discount in {0, 0.25..2, inf}, both assignments; storage-dtype stream: obs dtype x kind of first threshold (Python int / float, "
        "np.int64 / np.uint8 / np.float32 scalar, array of dtype int64 / uint8 / uint16 / int8 / float32 / float64) x discount "
        "(0 / finite, int or float / inf) cycled so every combination occurs, fcst dtype = obs dtype 50 %, small clustered integer "
        "values (dyadic in float storage), a planted near false alarm 60 % / near miss 30 %, expected = Lean Spec on the values; "
        "infinite-value stream: +-inf (40 % of the entries of the chosen slot, at least one) in fcst / obs / scalar thresholds (+inf top, "
        "-inf bottom) / array thresholds / fcst+thresholds / everywhere x discount 0, finite, 0, inf cycled so every combination "
        "occurs, fcst and obs infinite at the same point, thresholds equal to an infinite fcst / obs, NaN 0-12 %, both assignments, "
        "expected = Lean Spec firmCaseX in extended-real arithmetic, plus FIRM = sum w * Murphy where both sides are defined; "
        "container stream: container of the thresholds x container of the weights (list / tuple / ndarray float64, float32, int64 / "
        "pandas Series with default, permuted (3 of 17), filtered, permuted+filtered, duplicated, negative, float, string index / "
        "pandas Index / 1-D DataArray) cycled so every pair occurs, 2-4 distinct thresholds (40 % increasing, 15 % decreasing, rest "
        "unordered) with pairwise distinct weights, 60 % / 50 % of the list / tuple / object-Series draws hold DataArrays over a / b / ab, "
        "expected = Lean Spec on the pairs by position; "
        "severity labels: docstring families / random str or int labels whose given order differs from the sorted order in ~2/3 "
        "of the draws, probability thresholds in random order; risk matrix: 1-3 severity categories x 1-3 probability thresholds, "
        "fcst copied from a threshold 50 %, obs in {0,1,nan}; guards: fixed valid base with every parameter set exactly on / just "
        "inside / just outside its boundary (alpha 0, 1 as int/float/np.float64/np.float32/np.int64, discount 0 and < 0, weight 0 "
        "scalar and at each array position, no threshold, unequal lengths, invalid assignment; fcst/obs/probability-threshold "
        "values per position) + random valid base with 0-2 faults, expecting ValueError exactly outside the documented domain; "
        "distinct = canonical input hash; non-trivial = some non-zero finite output")

# F10 (risk_matrix_score compared the severity dimension name by identity) is repaired in /repo (`!=`): dimension-name
# arguments are freshly built, non-interned str objects.  C12_FRESH_DIMS=0 falls back to interned literals.
FRESH = os.environ.get("C12_FRESH_DIMS", "1") != "0"
FINDINGS = os.environ.get("C12_FINDINGS", "") == "1"


def fresh(s):
    return "".join(list(s))


def dimname(s):
    return fresh(s) if FRESH else s


NAN = core.NAN
FUNC_OF_D = lambda d: "quantile" if d == 0 else ("expectile" if math.isinf(d) else "huber")


# ------------------------------------------------------------------------------------------ FIRM
def gen_firm(rng, mode=None):
    na, nb = rng.choice([1, 2, 3]), rng.choice([1, 2, 3, 4])
    k = rng.randint(2, 5)
    pool = [rng.randint(-8, 8) / rng.choice([1, 2, 4]) for _ in range(k)]
    fc = [[rng.choice(pool) for _ in range(nb)] for _ in range(na)]
    ob = [[(fc[i][j] if rng.random() < 0.3 else rng.choice(pool)) for j in range(nb)] for i in range(na)]
    pn = rng.choice([0, 0, 0.15])
    for i in range(na):
        for j in range(nb):
            if rng.random() < pn:
                fc[i][j] = NAN
            if rng.random() < pn:
                ob[i][j] = NAN
    nt = rng.randint(1, 3)

    def arr(kind, draw):
        # kind: "scalar" | "a" | "b" | "ab"
        if kind == "scalar":
            return {"kind": kind, "v": draw()}
        if kind == "a":
            return {"kind": kind, "v": [draw() for _ in range(na)]}
        if kind == "b":
            return {"kind": kind, "v": [draw() for _ in range(nb)]}
        return {"kind": kind, "v": [[draw() for _ in range(nb)] for _ in range(na)]}

    def tdraw():
        r = rng.random()
        if r < 0.55:
            return rng.choice(pool)
        if r < 0.9:
            return rng.choice(pool) + rng.choice([-0.5, 0.5, 0.25, -0.25, 1])
        return NAN

    def wdraw():
        return NAN if rng.random() < 0.1 else rng.choice([0.5, 1.0, 2.0, 3.0, 0.25])
    ths = [arr(rng.choice(["scalar", "scalar", "a", "b", "ab"]), tdraw) for _ in range(nt)]
    for t in ths:
        if t["kind"] == "scalar" and isinstance(t["v"], float) and math.isnan(t["v"]):
            t["v"] = rng.choice(pool)
    ws = [arr(rng.choice(["scalar", "scalar", "a", "b", "ab"]), wdraw) for _ in range(nt)]
    for w in ws:
        if w["kind"] == "scalar" and math.isnan(w["v"]):
            w["v"] = 1.0
    perm_a = list(range(na)); rng.shuffle(perm_a)
    perm_b = list(range(nb)); rng.shuffle(perm_b)
    return dict(fcst=fc, obs=ob, alpha=rng.choice([0.25, 0.5, 0.75, 0.125, 0.875]),
                d=rng.choice([0, 0.0, 0.25, 0.5, 1.0, 2.0, core.INF, core.INF]), mode=mode or rng.choice(["lower", "upper"]),
                thresholds=ths, weights=ws, perm_a=perm_a, perm_b=perm_b, reduce=rng.choice(["everything", "a", "none"]))


def _da(spec, na, nb):
    """scalar: Python float as stored, or the number type named by "ty" (int / float / np.<dtype>);
    array: DataArray of storage dtype "dt" (default float64)"""
    k = spec["kind"]
    dt = spec.get("dt", "float")
    if k == "scalar":
        return mk_num({"v": spec["v"], "ty": spec["ty"]}) if "ty" in spec else spec["v"]
    if k == "a":
        return xr.DataArray(np.array(spec["v"], dtype=dt), dims=["a"], coords={"a": list(range(na))})
    if k == "b":
        return xr.DataArray(np.array(spec["v"], dtype=dt), dims=["b"], coords={"b": [10 + j for j in range(nb)]})
    return xr.DataArray(np.array(spec["v"], dtype=dt), dims=["a", "b"],
                        coords={"a": list(range(na)), "b": [10 + j for j in range(nb)]})


def _at(spec, i, j):
    k = spec["kind"]
    if k == "scalar":
        return spec["v"]
    if k == "a":
        return spec["v"][i]
    if k == "b":
        return spec["v"][j]
    return spec["v"][i][j]


def firm_inputs(c):
    na, nb = len(c["fcst"]), len(c["fcst"][0])
    coords = {"a": list(range(na)), "b": [10 + j for j in range(nb)]}
    f = xr.DataArray(np.array(c["fcst"], dtype=c.get("fdt", "float")), dims=["a", "b"], coords=coords)
    o = xr.DataArray(np.array(c["obs"], dtype=c.get("odt", "float")), dims=["a", "b"], coords=coords)
    o = o.isel(a=c["perm_a"], b=c["perm_b"])
    return f, o, [_da(t, na, nb) for t in c["thresholds"]], [_da(w, na, nb) for w in c["weights"]]


def call_firm(c, reduce):
    from scores.categorical import firm
    f, o, ths, ws = firm_inputs(c)
    ths, ws = wrap_seq(ths, c.get("tcont")), wrap_seq(ws, c.get("wcont"))
    kw = {}
    if reduce == "none":
        kw["preserve_dims"] = fresh("all")
    elif reduce == "a":
        kw["preserve_dims"] = [fresh("a")]
    with np.errstate(all="ignore"):
        r = firm(f, o, c["alpha"], ths, ws, discount_distance=c["d"], threshold_assignment=fresh(c["mode"]), **kw)
    return r.sortby([d for d in ("a", "b") if d in r.dims])


def firm_cases_json(c, rows=None):
    na, nb = len(c["fcst"]), len(c["fcst"][0])
    out = []
    for i in (range(na) if rows is None else rows):
        for j in range(nb):
            out.append({"f": core.fl_str(c["fcst"][i][j]), "o": core.fl_str(c["obs"][i][j]),
                        "tw": [[core.fl_str(_at(t, i, j)), core.fl_str(_at(w, i, j))]
                               for t, w in zip(c["thresholds"], c["weights"])]})
    return out


def firm_ops(c, op):
    na = len(c["fcst"])
    base = {"alpha": core.fl_str(c["alpha"]), "d": core.fl_str(c["d"]), "mode": c["mode"]}
    ops = [{"op": op, "args": dict(base, cases=firm_cases_json(c))}]
    ops += [{"op": op, "args": dict(base, cases=firm_cases_json(c, [i]))} for i in range(na)]
    return ops


FVARS = [("firm_score", 0), ("overforecast_penalty", 1), ("underforecast_penalty", 2)]


def firm_compare(c, res, source):
    fails = []
    na, nb = len(c["fcst"]), len(c["fcst"][0])
    tags = {"d": core.fl_str(c["d"]), "mode": c["mode"], "source": source}
    if "odt" in c:
        tags.update(fcst_dtype=c["fdt"], obs_dtype=c["odt"], thresholds="+".join(sorted({th_kind(t) for t in c["thresholds"]})))
    if "inf_slot" in c:
        tags.update(input_class="infinite", inf_slot=c["inf_slot"])
    if "tcont" in c:
        tags.update(input_class="sequence-container", thresholds_container=cont_name(c["tcont"]),
                    weights_container=cont_name(c["wcont"]))
    try:
        r_all = call_firm(c, "none")
        r_red = r_all if c["reduce"] == "none" else call_firm(c, c["reduce"])
    except Exception as ex:  # noqa: BLE001
        return [("firm", "exception", core.exc_class(ex) + ": " + str(ex)[:200], "a Dataset", tags)]
    if set(r_all.data_vars) != {v for v, _ in FVARS}:
        return [("firm", "variables", sorted(r_all.data_vars), sorted(v for v, _ in FVARS), tags)]
    vals = {}
    for name, k in FVARS:
        got = r_all[name].transpose("a", "b").values
        vals[name] = got
        for i in range(na):
            for j in range(nb):
                exp = res[0]["cases"][i * nb + j][k]
                if not core.close(got[i, j], exp):
                    fails.append(("firm." + name, "case-value", float(got[i, j]), exp, dict(tags, a=i, b=j)))
        if c["reduce"] == "everything":
            g = float(r_red[name].values)
            if not core.close(g, res[0]["mean"][k]):
                fails.append(("firm." + name, "mean-value", g, res[0]["mean"][k], dict(tags, reduce="everything")))
        elif c["reduce"] == "a":
            g = r_red[name].values
            for i in range(na):
                if not core.close(g[i], res[1 + i]["mean"][k]):
                    fails.append(("firm." + name, "mean-value", float(g[i]), res[1 + i]["mean"][k], dict(tags, reduce="b", a=i)))
    # firm_score = overforecast + underforecast; never both
    s = vals["overforecast_penalty"] + vals["underforecast_penalty"]
    for idx in np.ndindex(s.shape):
        if not core.close_ff(vals["firm_score"][idx], s[idx]):
            fails.append(("firm.firm_score", "firm!=over+under", float(vals["firm_score"][idx]), float(s[idx]),
                          dict(tags, index=list(idx))))
            break
    return fails


def firm_vs_murphy(c, skip=None):
    """relation between implementation runs: FIRM = sum_j w_j * Murphy elementary score at theta = t_j
    (lower), or its left limit (upper) obtained by affine extrapolation from t - eps and t - 2 eps;
    skip(variable index 0..2, i, j) -> True where one of the two sides is not defined (infinite inputs, see murphy_skip_inf)"""
    from scores.continuous import murphy_score
    fails = []
    f, o, ths, ws = firm_inputs(c)
    d = c["d"]
    fn = FUNC_OF_D(d)
    eps = 1.0 / 64
    kw = dict(functional=fn, alpha=c["alpha"], huber_a=(d if fn == "huber" else None), decomposition=True,
              preserve_dims="all")
    tot = {"total": 0, "overforecast": 0, "underforecast": 0}
    with np.errstate(all="ignore"):
        for t, w in zip(ths, ws):
            def at(shift):
                th = (t - shift) if isinstance(t, xr.DataArray) else float(t) - shift
                th = th.expand_dims(theta=[0]) if isinstance(th, xr.DataArray) else [th]
                m = murphy_score(f, o, th, **kw)
                return m.isel(theta=0, drop=True)
            if c["mode"] == "lower":
                m = at(0.0)
            else:
                m = 2 * at(eps) - at(2 * eps)
            for v in tot:
                tot[v] = tot[v] + w * m[v]
        r = call_firm(c, "none")
    for k, (fv, mv) in enumerate((("firm_score", "total"), ("overforecast_penalty", "overforecast"),
                                  ("underforecast_penalty", "underforecast"))):
        a = r[fv].transpose("a", "b").values
        b = tot[mv].sortby(["a", "b"]).transpose("a", "b").values
        for idx in np.ndindex(a.shape):
            if skip is not None and skip(k, idx[0], idx[1]):
                continue
            if not core.close_ff(a[idx], b[idx]):
                fails.append(("firm." + fv, "firm!=sum-w*murphy", float(a[idx]), float(b[idx]),
                              {"d": core.fl_str(d), "mode": c["mode"], "functional": fn, "index": list(idx)}))
                break
    return fails


def firm_nontrivial(c, res):
    return any(x[0] not in ("0", "nan") for x in res[0]["cases"])


def tag_firm(ctx, c):
    ctx.tag("firm:mode=" + c["mode"])
    ctx.tag("firm:d=" + core.fl_str(c["d"]))
    vals = [(f, o) for rf, ro in zip(c["fcst"], c["obs"]) for f, o in zip(rf, ro)]
    na, nb = len(c["fcst"]), len(c["fcst"][0])
    tv = [_at(t, i, j) for t in c["thresholds"] for i in range(na) for j in range(nb)]
    if any(t == f for f, _ in vals for t in tv):
        ctx.tag("firm:threshold==fcst")
    if any(t == o for _, o in vals for t in tv):
        ctx.tag("firm:threshold==obs")
    if any(isinstance(t, float) and math.isnan(t) for t in tv):
        ctx.tag("firm:nan-threshold")
    if any(t["kind"] != "scalar" for t in c["thresholds"]):
        ctx.tag("firm:array-threshold")
    if any(w["kind"] != "scalar" for w in c["weights"]):
        ctx.tag("firm:array-weight")
    if "tcont" in c:
        ctx.tag("firm:thresholds-container=" + cont_name(c["tcont"]))
        ctx.tag("firm:weights-container=" + cont_name(c["wcont"]))
        if any(t["kind"] != "scalar" for t in c["thresholds"]):
            ctx.tag("firm:container-of-DataArray-thresholds")
        if cont_positional(c["tcont"]) != cont_positional(c["wcont"]):
            ctx.tag("firm:label-indexed-sequence-next-to-positional-one")
    if "odt" in c:
        ctx.tag("firm:obs-dtype=" + c["odt"])
        ctx.tag("firm:fcst-dtype=" + c["fdt"])
        for t in c["thresholds"]:
            ctx.tag("firm:threshold=" + th_kind(t))
        if c["odt"] in UNSIGNED and float(c["d"]) > 0 and any(
                o < _at(t, i, j) for i in range(na) for j in range(nb) for o in [c["obs"][i][j]] for t in c["thresholds"]
                if not core.is_nan(_at(t, i, j))):
            ctx.tag("firm:unsigned-obs-below-threshold-discounted")


# ---- storage dtypes: the statement is about the VALUES, whatever numpy dtype stores fcst / obs / thresholds
FIRM_DT = ["uint8", "uint16", "int8", "int64", "float32", "uint32", "int16", "uint8", "int32", "float64"]      # obs dtype cycle
UNSIGNED = ("uint8", "uint16", "uint32")
INT_DT = UNSIGNED + ("int8", "int16", "int32", "int64")
TH_KINDS = ["int", "float", "np.int64", "np.uint8", "np.float32", "arr:int64", "arr:uint8", "arr:uint16", "arr:float32",
            "arr:float64", "arr:int8"]


def th_kind(t):
    return ("arr:" + t.get("dt", "float64")) if t["kind"] != "scalar" else "scalar:" + t.get("ty", "float")


def gen_firm_dtype(rng, k):
    """k-th case of the storage-dtype stream: obs dtype, kind of the first threshold and kind of discount cycle with k
    (every combination of the three appears), the rest is drawn.  Values are small integers (non-negative as soon as an
    unsigned dtype takes part, so that no Python-int threshold is out of the dtype's range) or, in float storage, dyadic;
    NaN only in float storage.  The expected value is the Lean Spec on these VALUES."""
    odt = FIRM_DT[k % len(FIRM_DT)]
    fdt = odt if rng.random() < 0.5 else rng.choice(FIRM_DT)
    nonneg = odt in UNSIGNED or fdt in UNSIGNED
    na, nb = rng.choice([1, 2, 3]), rng.choice([1, 2, 3, 4])
    base = rng.randint(0, 9) if nonneg else rng.randint(-8, 4)      # clustered: distances to a threshold comparable with d
    ipool = [base + rng.randint(0, 4) for _ in range(rng.randint(2, 5))]

    def vdraw(dt):
        v = rng.choice(ipool)
        if dt in INT_DT:
            return v
        return float(v) + (rng.choice([0.25, 0.5, 0.75]) if rng.random() < 0.4 else 0.0)
    fc = [[vdraw(fdt) for _ in range(nb)] for _ in range(na)]
    ob = [[(fc[i][j] if (rng.random() < 0.3 and (odt not in INT_DT or float(fc[i][j]).is_integer())) else vdraw(odt))
           for j in range(nb)] for i in range(na)]
    if odt in INT_DT:
        ob = [[int(v) for v in row] for row in ob]
    pn = rng.choice([0, 0, 0, 0.15])
    for i in range(na):
        for j in range(nb):
            if fdt not in INT_DT and rng.random() < pn:
                fc[i][j] = NAN
            if odt not in INT_DT and rng.random() < pn:
                ob[i][j] = NAN
    nt = rng.randint(1, 3)

    def shape(kind, draw):
        if kind == "a":
            return [draw() for _ in range(na)]
        if kind == "b":
            return [draw() for _ in range(nb)]
        return [[draw() for _ in range(nb)] for _ in range(na)]

    def threshold(tk):
        isint = tk in ("int", "np.int64", "np.uint8") or (tk.startswith("arr:") and tk[4:] in INT_DT)
        unsigned = tk == "np.uint8" or (tk.startswith("arr:") and tk[4:] in UNSIGNED)

        def tdraw():
            r = rng.random()
            if r < 0.1 and tk in ("arr:float32", "arr:float64"):
                return NAN
            v = rng.choice(ipool) + (0 if r < 0.55 else rng.choice([-1, 1, 2, -2]))
            if nonneg or unsigned:
                v = abs(v)
            if not isint:
                return float(v) + (rng.choice([0.5, -0.5, 0.25]) if rng.random() < 0.3 and v > 0 else 0.0)
            return v
        if tk.startswith("arr:"):
            kind = rng.choice(["a", "b", "ab"])
            return {"kind": kind, "v": shape(kind, tdraw), "dt": tk[4:]}
        return {"kind": "scalar", "v": tdraw(), "ty": tk}
    ths = [threshold(TH_KINDS[k % len(TH_KINDS)] if n == 0 else rng.choice(TH_KINDS + ["int", "int", "int", "float"]))
           for n in range(nt)]
    # plant a near false alarm (60 %) / near miss (30 %): the two operands 0-3 below and 0-2 above one threshold of the case
    for below, above, pr in ((ob, fc, 0.6), (fc, ob, 0.3)):
        i, j, t = rng.randrange(na), rng.randrange(nb), rng.choice(ths)
        th = _at(t, i, j)
        if rng.random() < pr and not core.is_nan(th):
            lo, hi = int(math.floor(th)) - rng.choice([0, 1, 1, 2, 3]), int(math.ceil(th)) + rng.choice([0, 1, 1, 2])
            if lo >= 0 or not nonneg:
                below[i][j], above[i][j] = lo, hi

    def wdraw():
        return NAN if rng.random() < 0.1 else rng.choice([0.5, 1.0, 2.0, 3.0, 0.25])
    ws = []
    for _ in range(nt):
        kind = rng.choice(["scalar", "scalar", "a", "b", "ab"])
        if kind == "scalar":
            ws.append(rng.choice([{"kind": kind, "v": rng.choice([0.5, 1.0, 2.0, 3.0, 0.25])},
                                  {"kind": kind, "v": rng.choice([1, 2, 3]), "ty": "int"}]))
        else:
            ws.append({"kind": kind, "v": shape(kind, wdraw)})
    dk = (k // len(FIRM_DT)) % 3
    d = rng.choice([0, 0.0]) if dk == 0 else (rng.choice([1, 2, 4, 0.5, 1.5, 2.0, 0.25, 3]) if dk == 1 else core.INF)
    perm_a = list(range(na)); rng.shuffle(perm_a)
    perm_b = list(range(nb)); rng.shuffle(perm_b)
    return dict(fcst=fc, obs=ob, fdt=fdt, odt=odt, alpha=rng.choice([0.25, 0.5, 0.75, 0.125, 0.875]), d=d,
                mode=rng.choice(["lower", "upper"]), thresholds=ths, weights=ws, perm_a=perm_a, perm_b=perm_b,
                reduce=rng.choice(["everything", "a", "none"]))


def run_firm_dtype_batch(ctx, batch, kind, op, n):
    k0 = ctx.rng.randrange(len(FIRM_DT) * len(TH_KINDS) * 3)
    run_firm_batch(ctx, batch, kind, op, n, cases=[gen_firm_dtype(ctx.rng, k0 + k) for k in range(n)])


def run_firm_batch(ctx, batch, kind, op, n, murphy=False, mode=None, cases=None):
    cs = cases if cases is not None else [gen_firm(ctx.rng, mode=mode) for _ in range(n)]
    ops, spans = [], []
    for c in cs:
        o = firm_ops(c, op)
        spans.append((len(ops), len(ops) + len(o)))
        ops += o
    res = core.run_driver("C12", ops)
    for c, (lo, hi) in zip(cs, spans):
        ctx.case(batch, c, nontrivial=firm_nontrivial(c, res[lo:hi]))
        tag_firm(ctx, c)
        for site, sig, ob, ex, tags in firm_compare(c, res[lo:hi], "spec" if kind == "property" else "model"):
            ctx.fail(batch, kind, site, sig, dict(c, check="firm"), observed=ob, expected=ex, tags=tags,
                     theorem="firm_case_eq_spec" if kind == "property" else None)
        if murphy:
            for site, sig, ob, ex, tags in firm_vs_murphy(c):
                ctx.fail(batch, kind, site, sig, dict(c, check="firm-murphy"), observed=ob, expected=ex, tags=tags,
                         theorem="firm_lower_eq_murphy")


# ---- containers: `categorical_thresholds` / `threshold_weights` are SEQUENCES; the k-th weight goes with the k-th threshold in
#      the order the sequence ITERATES (position), whatever container holds it: list, tuple, numpy array (float64 / float32 /
#      int64), pandas Series with the default index, with a permuted integer index (a table after sort_values), with a filtered /
#      non-contiguous / negative / duplicated integer index, with a string or float index, of dtype object holding DataArrays,
#      pandas Index, 1-D DataArray, lists / tuples mixing scalars and DataArrays.  Expected = the Lean Spec on the
#      (threshold, weight) pairs BY POSITION (the case dict stores both sequences in iteration order).
CONT_KINDS = ["list", "series:perm", "ndarray:float64", "tuple", "series:default", "series:filtered", "ndarray:int64", "series:str",
              "series:perm", "da1d", "series:perm-filtered", "ndarray:float32", "series:dup", "index", "series:negative",
              "series:float", "series:perm"]
CONT_ANY = ("list", "tuple", "series:perm", "series:default", "series:str", "series:perm-filtered")   # may hold DataArrays (Series: dtype object)
SERIES_STR = ["minor", "moderate", "severe", "extreme", "c", "a", "b", "0", "1", "2"]


def gen_cont(rng, kind, n, scalars_only, isint):
    """container spec of kind `kind` for a sequence of n items"""
    base, _, sub = kind.partition(":")
    if base in ("list", "tuple"):
        return {"c": base}
    if base == "ndarray":
        return {"c": base, "dt": sub}
    dt = "object" if not scalars_only else ("int64" if isint else "float64")
    if base in ("index", "da1d"):
        return {"c": base, "dt": dt}
    if sub == "default":
        idx = None
    elif sub == "perm":           # the index a table keeps after sort_values: 0..n-1 in another order
        idx = list(range(n))
        while idx == list(range(n)):
            rng.shuffle(idx)
    elif sub == "filtered":       # after boolean filtering: increasing, not 0..n-1
        idx = list(range(n))
        while idx == list(range(n)):
            idx = sorted(rng.sample(range(n + 3), n))
    elif sub == "perm-filtered":
        idx = rng.sample(range(n + 3), n)
        if idx == list(range(n)):
            idx = idx[::-1]
    elif sub == "dup":            # after concat: repeated labels
        idx = [rng.randrange(max(1, n - 1)) for _ in range(n)]
        if len(set(idx)) == n:
            idx[-1] = idx[0]
    elif sub == "negative":
        idx = [-(i + 1) for i in range(n)]
        if rng.random() < 0.5:
            rng.shuffle(idx)
    elif sub == "float":
        idx = rng.sample([0.0, 1.0, 2.0, 0.5, 1.5, 3.0, -1.0], n)
    else:
        idx = rng.sample(SERIES_STR, n)
    return {"c": "series", "dt": dt, "index": idx, "sub": sub}


def cont_name(cont):
    if cont["c"] == "series":
        return "series[" + cont["sub"] + "]:" + cont["dt"]
    return cont["c"] + ((":" + cont["dt"]) if "dt" in cont else "")


def cont_positional(cont):
    """[] on the container means position (everything but a Series whose index is not 0..n-1)"""
    return cont["c"] != "series" or cont["index"] is None


def wrap_seq(items, cont):
    """the sequence `items` (Python numbers / DataArrays, in order) in the container described by `cont`"""
    if cont is None:
        return items
    k = cont["c"]
    if k == "list":
        return list(items)
    if k == "tuple":
        return tuple(items)
    if cont["dt"] == "object":
        data = np.empty(len(items), dtype=object)
        for i, x in enumerate(items):
            data[i] = x
    else:
        data = np.array(items, dtype=cont["dt"])
    if k == "ndarray":
        return data
    if k == "da1d":
        return xr.DataArray(data, dims=[fresh("category")])
    import pandas as pd
    if k == "index":
        return pd.Index(data)
    return pd.Series(data, index=cont["index"])


def gen_firm_cont(rng, k):
    """k-th case of the container stream: container of the thresholds / of the weights cycle with k (every pair occurs within
    len(CONT_KINDS)^2 consecutive k); 2-4 thresholds, distinct where the pool allows, all weights distinct, so that pairing a
    weight with another threshold changes the score; scalars only unless both containers can hold DataArrays (then >= 1 array)"""
    c = gen_firm(rng)
    nk = len(CONT_KINDS)
    tk, wk = CONT_KINDS[k % nk], CONT_KINDS[(k * 7 + k // nk) % nk]
    na, nb = len(c["fcst"]), len(c["fcst"][0])
    nt = rng.choice([2, 3, 3, 4])
    t_int, w_int = tk == "ndarray:int64" or (tk.startswith("series") and rng.random() < 0.25), wk == "ndarray:int64"
    vals = sorted({v for row in c["fcst"] + c["obs"] for v in row if not core.is_nan(v)}) or [0.0]
    cand = sorted({v + s for v in vals for s in (0, 0, -0.5, 0.5, 0.25, 1, -1)})
    if t_int:
        cand = sorted({int(math.floor(v)) for v in cand} | {int(math.ceil(v)) for v in cand})
    while len(cand) < nt:
        cand.append(cand[-1] + 1)
    tv = rng.sample(cand, nt)
    r = rng.random()
    if r < 0.4:
        tv.sort()
    elif r < 0.55:
        tv.sort(reverse=True)
    wv = rng.sample([1, 2, 3, 4, 5, 6] if w_int else [0.5, 1.0, 2.0, 3.0, 0.25, 4.0, 1.5], nt)
    ths = [{"kind": "scalar", "v": v} for v in tv]
    ws = [{"kind": "scalar", "v": v} for v in wv]

    def shape(kind, draw):
        if kind == "a":
            return [draw() for _ in range(na)]
        if kind == "b":
            return [draw() for _ in range(nb)]
        return [[draw() for _ in range(nb)] for _ in range(na)]
    t_arr = tk in CONT_ANY and rng.random() < 0.6
    if t_arr:      # sequences of DataArrays (thresholds by climatology), some entries scalar
        for n in rng.sample(range(nt), rng.randint(1, nt)):
            kind = rng.choice(["a", "b", "ab"])
            ths[n] = {"kind": kind, "v": shape(kind, lambda n=n: NAN if rng.random() < 0.05 else tv[n] + rng.choice([0, 0, 0.5, -0.5, 1]))}
    w_arr = wk in CONT_ANY and rng.random() < 0.5
    if w_arr:
        for n in rng.sample(range(nt), rng.randint(1, nt)):
            kind = rng.choice(["a", "b", "ab"])
            ws[n] = {"kind": kind, "v": shape(kind, lambda n=n: NAN if rng.random() < 0.08 else wv[n] * rng.choice([1, 1, 2, 0.5]))}
    c.update(thresholds=ths, weights=ws, tcont=gen_cont(rng, tk, nt, not t_arr, t_int), wcont=gen_cont(rng, wk, nt, not w_arr, w_int))
    return c


def run_firm_cont_batch(ctx, batch, kind, op, n):
    k0 = ctx.rng.randrange(len(CONT_KINDS) ** 2)
    run_firm_batch(ctx, batch, kind, op, n, cases=[gen_firm_cont(ctx.rng, k0 + k) for k in range(n)])


# ---- infinite values: +inf / -inf forecasts, observations and category thresholds are legal floats (a forecast above every
#      category, an observation off the scale, a +inf top threshold where the category cannot occur, a -inf bottom threshold).
#      Expected = Spec.Firm.firmCaseX (op c12.firm_x): the stated product w*(1-alpha)*scale*1[false alarm] + w*alpha*scale*1[miss]
#      in the extended-real arithmetic of SV.Fl (0*inf = nan): without discount the penalty or 0 everywhere (NaN only for a NaN
#      operand); with a discount NaN exactly where the product is inf*0 (tagged), the penalty or 0 elsewhere.
INF_SLOTS = ["fcst", "obs", "thr-scalar", "thr-array", "fcst+thr", "all"]
INF_DK = ["0", "finite", "0", "inf"]


def gen_firm_inf(rng, k):
    """k-th case of the infinite-value stream: where the infinities sit (INF_SLOTS) and the kind of discount (INF_DK) cycle with k,
    so every combination occurs every 24 cases; slot 'fcst' with a discount is the class where the discounted expression is
    defined everywhere (finite observations and thresholds)"""
    slot = INF_SLOTS[k % len(INF_SLOTS)]
    dk = INF_DK[(k // len(INF_SLOTS)) % len(INF_DK)]
    na, nb = rng.choice([1, 2, 3]), rng.choice([1, 2, 3, 4])
    pool = [rng.randint(-8, 8) / rng.choice([1, 2, 4]) for _ in range(rng.randint(2, 5))]
    inf = lambda: rng.choice([core.INF, core.INF, -core.INF])      # noqa: E731
    fc = [[rng.choice(pool) for _ in range(nb)] for _ in range(na)]
    ob = [[(fc[i][j] if rng.random() < 0.3 else rng.choice(pool)) for j in range(nb)] for i in range(na)]
    pn = rng.choice([0, 0, 0.12])
    for grid, on in ((fc, slot in ("fcst", "fcst+thr", "all")), (ob, slot in ("obs", "all"))):
        for i in range(na):
            for j in range(nb):
                if on and rng.random() < 0.4:
                    grid[i][j] = inf()
                elif rng.random() < pn:
                    grid[i][j] = NAN
        if on and not any(math.isinf(v) for row in grid for v in row):
            grid[rng.randrange(na)][rng.randrange(nb)] = inf()
    if slot == "all" and rng.random() < 0.5:      # forecast and observation infinite at the same point (same or opposite sign)
        i, j = rng.randrange(na), rng.randrange(nb)
        fc[i][j], ob[i][j] = inf(), inf()
    nt = rng.randint(1, 3)
    thr_inf = slot in ("thr-scalar", "thr-array", "fcst+thr", "all")

    def shape(kind, draw):
        if kind == "a":
            return [draw() for _ in range(na)]
        if kind == "b":
            return [draw() for _ in range(nb)]
        return [[draw() for _ in range(nb)] for _ in range(na)]

    def fin_t():
        return rng.choice(pool) + (0 if rng.random() < 0.55 else rng.choice([-0.5, 0.5, 0.25, -0.25, 1]))
    ths = []
    for n in range(nt):
        # the top threshold tends to +inf, the bottom one to -inf (with one threshold: either)
        sign = core.INF if (n == nt - 1 and (nt > 1 or rng.random() < 0.6)) else (-core.INF if n == 0 else inf())
        if slot == "thr-scalar" or (slot in ("fcst+thr", "all") and rng.random() < 0.5) or not thr_inf:
            kind = "scalar" if (thr_inf or rng.random() < 0.5) else rng.choice(["a", "b", "ab"])
            if kind == "scalar":
                ths.append({"kind": "scalar", "v": sign if (thr_inf and (n in (0, nt - 1)) and rng.random() < 0.7) else fin_t()})
            else:
                ths.append({"kind": kind, "v": shape(kind, lambda: NAN if rng.random() < 0.05 else fin_t())})
        else:
            kind = rng.choice(["a", "b", "ab"])

            def tdraw(sign=sign):
                r = rng.random()
                return sign if r < 0.35 else (-sign if r < 0.42 else (NAN if r < 0.47 else fin_t()))
            ths.append({"kind": kind, "v": shape(kind, tdraw)})
    if thr_inf and not any(isinstance(v, float) and math.isinf(v) for t in ths for v in np.ravel(t["v"])):
        t = rng.choice(ths)
        if t["kind"] == "scalar":
            t["v"] = inf()
        else:
            flat = np.array(t["v"], dtype=float)
            flat[tuple(rng.randrange(n_) for n_ in flat.shape)] = inf()
            t["v"] = flat.tolist()

    def wdraw():
        return NAN if rng.random() < 0.08 else rng.choice([0.5, 1.0, 2.0, 3.0, 0.25])
    ws = []
    for _ in range(nt):
        kind = rng.choice(["scalar", "scalar", "scalar", "a", "b", "ab"])
        ws.append({"kind": kind, "v": rng.choice([0.5, 1.0, 2.0, 3.0, 0.25])} if kind == "scalar" else {"kind": kind, "v": shape(kind, wdraw)})
    d = rng.choice([0, 0.0]) if dk == "0" else (rng.choice([0.25, 0.5, 1.0, 2.0, 4.0]) if dk == "finite" else core.INF)
    perm_a = list(range(na)); rng.shuffle(perm_a)
    perm_b = list(range(nb)); rng.shuffle(perm_b)
    return dict(fcst=fc, obs=ob, alpha=rng.choice([0.25, 0.5, 0.75, 0.125, 0.875]), d=d, mode=rng.choice(["lower", "upper"]),
                thresholds=ths, weights=ws, perm_a=perm_a, perm_b=perm_b, reduce=rng.choice(["everything", "a", "none", "none"]),
                inf_slot=slot)


def _isinf(v):
    return isinstance(v, (int, float)) and math.isinf(v)


def murphy_skip_inf(c, res0):
    """where FIRM = sum w * Murphy is not checked on the infinite-value stream (one of the two sides is not defined there):
    * the FIRM expression itself is undefined for this variable at this point: the Spec gives NaN although no operand is NaN
      (inf*0 with discounting, or the distance inf - inf of an infinite observation from an equal infinite threshold) — the
      Murphy side hides that behind its `.fillna(0)`;
    * an infinite forecast with the quantile / Huber kernels of murphy_impl.py (they start from `fcst * 0.0`);
    * 'upper' (left limit by extrapolation from t - eps, t - 2 eps): an infinite threshold has no such neighbours, and with
      d = inf an infinite observation makes both neighbours infinite"""
    nb = len(c["fcst"][0])
    dinf = _isinf(c["d"])

    def operands(i, j):
        return [c["fcst"][i][j], c["obs"][i][j]] + [_at(x, i, j) for x in c["thresholds"] + c["weights"]]

    def skip(k, i, j):
        if res0["cases"][i * nb + j][k] == "nan" and not any(core.is_nan(v) for v in operands(i, j)):
            return True
        if _isinf(c["fcst"][i][j]) and not dinf:
            return True
        if c["mode"] == "upper" and (any(_isinf(_at(t, i, j)) for t in c["thresholds"]) or (dinf and _isinf(c["obs"][i][j]))):
            return True
        return False
    return skip


def tag_firm_inf(ctx, c, res0):
    ctx.tag("firm-inf:slot=" + c["inf_slot"])
    ctx.tag("firm-inf:d=" + ("0" if not c["d"] else "inf" if _isinf(c["d"]) else "finite"))
    na, nb = len(c["fcst"]), len(c["fcst"][0])
    tv = [(_at(t, i, j), c["fcst"][i][j], c["obs"][i][j]) for t in c["thresholds"] for i in range(na) for j in range(nb)]
    if any(t == core.INF for t, _, _ in tv):
        ctx.tag("firm-inf:threshold=+inf")
    if any(t == -core.INF for t, _, _ in tv):
        ctx.tag("firm-inf:threshold=-inf")
    if any(_isinf(t) and t == f for t, f, _ in tv):
        ctx.tag("firm-inf:threshold==fcst==inf")
    if any(_isinf(t) and t == o for t, _, o in tv):
        ctx.tag("firm-inf:threshold==obs==inf")
    if any(_isinf(f) and _isinf(o) for _, f, o in tv):
        ctx.tag("firm-inf:fcst-and-obs-infinite")
    if any(x in ("inf", "-inf") for e in res0["cases"] for x in e):
        ctx.tag("firm-inf:infinite-score-expected")
    if c["d"]:
        if res0["cases"] != res0["dec"]:
            # the stated product is inf*0 = nan although the decision (false alarm / miss / neither) is clear: notes/C12.md N3
            ctx.tag("firm-inf:discount-inf*0-nan-expected (notes/C12.md N3)")
        else:
            ctx.tag("firm-inf:discount-well-defined")


def run_firm_inf_batch(ctx, batch, kind, n, murphy=False):
    k0 = ctx.rng.randrange(len(INF_SLOTS) * len(INF_DK))
    cs = [gen_firm_inf(ctx.rng, k0 + k) for k in range(n)]
    op = "c12.firm_x" if kind == "property" else "c12.firm"
    ops, spans = [], []
    for c in cs:
        o = firm_ops(c, op)
        spans.append((len(ops), len(ops) + len(o)))
        ops += o
    res = core.run_driver("C12", ops)
    xres = res if kind == "property" else core.run_driver("C12", [firm_ops(c, "c12.firm_x")[0] for c in cs])
    for n_, (c, (lo, hi)) in enumerate(zip(cs, spans)):
        ctx.case(batch, c, nontrivial=firm_nontrivial(c, res[lo:hi]))
        tag_firm(ctx, c)
        tag_firm_inf(ctx, c, xres[lo] if kind == "property" else xres[n_])
        for site, sig, ob, ex, tags in firm_compare(c, res[lo:hi], "spec-extended-reals" if kind == "property" else "model"):
            ctx.fail(batch, kind, site, sig, dict(c, check="firm-x"), observed=ob, expected=ex, tags=tags,
                     theorem="over_nodiscount_all / firmCaseX" if kind == "property" else None)
        if murphy:
            for site, sig, ob, ex, tags in firm_vs_murphy(c, murphy_skip_inf(c, res[lo])):
                ctx.fail(batch, kind, site, sig, dict(c, check="firm-x-murphy"), observed=ob, expected=ex,
                         tags=dict(tags, input_class="infinite", inf_slot=c["inf_slot"]), theorem="firm_lower_eq_murphy")


# ---- malformed / boundary stream of firm: every parameter exactly ON its boundary, one fault at a time
TINY = 2.0 ** -20
NTY = ["int", "float", "np.float64", "np.float32", "np.int64"]


def N(v, ty="float"):
    return {"v": v, "ty": ty}


def mk_num(s):
    v, ty = s["v"], s["ty"]
    if ty == "int":
        return int(v)
    if ty == "float":
        return float(v)
    return getattr(np, ty[3:])(v)


ALPHA_OK = [N(0.5), N(0.25), N(0.75, "np.float64"), N(TINY), N(1 - TINY), N(0.5, "np.float32"), N(1 - TINY, "np.float64"),
            N(TINY, "np.float32")]
ALPHA_BAD = ([N(v, ty) for v in (0, 1) for ty in NTY] +
             [N(-0.0), N(1 + TINY), N(-TINY), N(1 + TINY, "np.float64"), N(-TINY, "np.float32"), N(1.5), N(-0.5), N(2, "int"),
              N(-1, "int"), N(core.INF), N(-core.INF)])
D_OK = [N(0, "int"), N(0.0), N(-0.0), N(0, "np.int64"), N(0.0, "np.float64"), N(0.0, "np.float32"), N(0.5), N(TINY), N(1, "int"),
        N(core.INF), N(2.0, "np.float32")]
D_BAD = [N(-TINY), N(-0.5), N(-1, "int"), N(-1, "np.int64"), N(-0.25, "np.float64"), N(-TINY, "np.float32"), N(-core.INF)]
W_OK = [N(1.0), N(2, "int"), N(0.5, "np.float64"), N(TINY), N(3, "np.int64"), N(0.25, "np.float32")]
W_BAD = ([N(0, ty) for ty in NTY] + [N(-0.0), N(-TINY), N(-1, "int"), N(-1.0), N(-TINY, "np.float64"), N(-core.INF)])
W_BAD_ELEM = [0.0, -0.0, -TINY, -1.0, -core.INF]
MODE_BAD = ["Lower", "UPPER", "middle", "", " lower", "lower ", "both", "left", "low", "uppe"]
FB_SHAPE = {"a": (2,), "b": (2,), "ab": (2, 2)}


def _warr(dims, vals, dt="float"):
    return {"arr": vals, "dims": dims, "dt": dt}


def _set_elem(vals, pos, v):
    vals = [list(r) if isinstance(r, list) else r for r in vals]
    if len(pos) == 1:
        vals[pos[0]] = v
    else:
        vals[pos[0]][pos[1]] = v
    return vals


def firm_bad_base():
    return dict(ths=[1.0, 2.0], ws=[N(1.0), N(2.0)], alpha=N(0.5), d=N(0, "int"), mode="lower", fault=[])


def firm_bad_grid():
    """deterministic single-fault grid on a fixed valid base: every boundary value of every parameter, every number type"""
    out = []

    def put(fault, **kw):
        out.append(dict(firm_bad_base(), fault=[fault], **kw))
    for s in ALPHA_OK:
        put("alpha-ok", alpha=s)
    for s in ALPHA_BAD:
        put("alpha", alpha=s)
        put("alpha", alpha=s, d=N(2.0), mode="upper")
    for s in D_OK:
        put("d-ok", d=s)
    for s in D_BAD:
        put("d", d=s)
    for s in W_OK:
        put("w-ok", ws=[s, N(1.0)])
    for k, s in enumerate(W_BAD):
        put("w-scalar", ws=[s, N(1.0)] if k % 2 == 0 else [N(1.0), s])
    for dims, shape in FB_SHAPE.items():
        ones = [1.0, 2.0] if len(shape) == 1 else [[1.0, 2.0], [0.5, 3.0]]
        put("w-ok", ws=[N(1.0), _warr(dims, _set_elem(ones, (0,) * len(shape), NAN))])
        put("w-ok", ws=[_warr(dims, _set_elem(ones, (1,) * len(shape), TINY)), N(1.0)])
        for pos in np.ndindex(shape):
            for k, v in enumerate(W_BAD_ELEM[:3]):
                w = _warr(dims, _set_elem(ones, pos, v))
                put("w-array", ws=[w, N(1.0)] if k % 2 else [N(1.0), w])
    put("w-array", ws=[_warr("a", [1, 0], "int"), N(1.0)])
    put("w-array", ws=[N(1.0), _warr("ab", [[1, 2], [3, -1]], "int")])
    put("w-ok", ws=[_warr("a", [1, 2], "int"), N(1.0)])
    put("nt0", ths=[], ws=[])
    put("len", ths=[1.0, 2.0], ws=[N(1.0)])
    put("len", ths=[1.0], ws=[N(1.0), N(2.0)])
    put("len", ths=[], ws=[N(1.0)])
    put("len", ths=[1.0], ws=[])
    for m in MODE_BAD:
        put("mode", mode=m)
    put("mode-ok", mode="upper")
    return out


def gen_firm_bad(rng):
    """valid base drawn at random, then 0 (15 %), 1 (65 %) or 2 (20 %) faults"""
    nt = rng.choice([1, 1, 2, 3])

    def wok():
        r = rng.random()
        if r < 0.6:
            return dict(rng.choice(W_OK))
        dims = rng.choice(list(FB_SHAPE))
        shape = FB_SHAPE[dims]
        draw = lambda: NAN if rng.random() < 0.15 else rng.choice([1.0, 2.0, 0.5, TINY, 3.0])
        vals = [draw() for _ in range(2)] if len(shape) == 1 else [[draw() for _ in range(2)] for _ in range(2)]
        return _warr(dims, vals)
    ths = []
    for _ in range(nt):
        ths.append(rng.choice([0.5, 1.0, 2.0, 1.5]) if rng.random() < 0.7 else
                   _warr(rng.choice(["a", "b"]), [rng.choice([0.5, 1.0, 2.0, NAN]), rng.choice([1.0, 2.5])]))
    b = dict(ths=ths, ws=[wok() for _ in range(nt)], alpha=dict(rng.choice(ALPHA_OK)), d=dict(rng.choice(D_OK)),
             mode=rng.choice(["lower", "upper"]), fault=[])
    r = rng.random()
    nf = 0 if r < 0.15 else (1 if r < 0.8 else 2)
    for fault in rng.sample(["alpha", "alpha", "d", "w-scalar", "w-array", "nt0", "len", "mode"], nf):
        if fault in b["fault"]:
            continue
        b["fault"].append(fault)
        if fault == "alpha":
            b["alpha"] = dict(rng.choice(ALPHA_BAD))
        elif fault == "d":
            b["d"] = dict(rng.choice(D_BAD))
        elif fault == "w-scalar" and b["ws"]:
            b["ws"][rng.randrange(len(b["ws"]))] = dict(rng.choice(W_BAD))
        elif fault == "w-array" and b["ws"]:
            dims = rng.choice(list(FB_SHAPE))
            shape = FB_SHAPE[dims]
            draw = lambda: NAN if rng.random() < 0.2 else rng.choice([1.0, 2.0, 0.5, TINY])
            vals = [draw() for _ in range(2)] if len(shape) == 1 else [[draw() for _ in range(2)] for _ in range(2)]
            pos = tuple(rng.randrange(2) for _ in shape)
            b["ws"][rng.randrange(len(b["ws"]))] = _warr(dims, _set_elem(vals, pos, rng.choice(W_BAD_ELEM)))
        elif fault == "nt0":
            b["ths"], b["ws"] = [], []
        elif fault == "len":
            if rng.random() < 0.5 and b["ws"]:
                b["ws"] = b["ws"][:-1]
            else:
                b["ws"] = b["ws"] + [N(1.0)]
        elif fault == "mode":
            b["mode"] = rng.choice(MODE_BAD)
    return b


def _fb_da(spec):
    dims = list(spec["dims"])
    return xr.DataArray(np.array(spec["arr"], dtype=(int if spec.get("dt") == "int" else float)), dims=dims)


def _fb_obj(spec):
    if isinstance(spec, dict) and "arr" in spec:
        return _fb_da(spec)
    if isinstance(spec, dict):
        return mk_num(spec)
    return spec


def _fb_flat(spec):
    if isinstance(spec, dict) and "arr" in spec:
        return [float(x) for x in np.array(spec["arr"], dtype=float).ravel()]
    return [float(mk_num(spec))]


def firm_bad_outcome(b):
    """'ok' (returned a Dataset) / exception class"""
    from scores.categorical import firm
    f = xr.DataArray([[1.0, 2.0], [3.0, 0.0]], dims=["a", "b"]); o = xr.DataArray([[2.0, 0.0], [1.0, 3.0]], dims=["a", "b"])
    try:
        with np.errstate(all="ignore"):
            r = firm(f, o, mk_num(b["alpha"]), [_fb_obj(t) for t in b["ths"]], [_fb_obj(w) for w in b["ws"]],
                     discount_distance=mk_num(b["d"]), threshold_assignment=fresh(b["mode"]))
        return "ok" if isinstance(r, xr.Dataset) else "returned " + type(r).__name__
    except Exception as ex:  # noqa: BLE001
        return core.exc_class(ex)


def firm_bad_op(b, op="c12.firm_check"):
    flat = []
    for w in b["ws"]:
        flat += _fb_flat(w)
    return {"op": op, "args": {"nt": len(b["ths"]), "nw": len(b["ws"]), "alpha": core.fl_str(float(mk_num(b["alpha"]))),
                               "weights": [core.fl_str(x) for x in flat], "d": core.fl_str(float(mk_num(b["d"]))),
                               "mode": b["mode"]}}


def tag_firm_bad(ctx, b):
    ctx.tag("malformed")
    for fl in (b.get("fault") or ["none"]):
        ctx.tag("firm-guard:" + fl)
    a = float(mk_num(b["alpha"]))
    if a in (0.0, 1.0):
        ctx.tag("firm-guard:alpha==%d:%s" % (int(a), b["alpha"]["ty"]))
    if float(mk_num(b["d"])) == 0.0:
        ctx.tag("firm-guard:d==0")


def firm_guard_batch(ctx, batch, kind, n_random):
    """raise / return of firm on the boundary grid + random stream vs the model's guard (correspondence) or the documented
    domain Spec.Firm.firmDomain (property)"""
    bads = firm_bad_grid() + [gen_firm_bad(ctx.rng) for _ in range(n_random)]
    op = "c12.firm_check" if kind == "correspondence" else "c12.firm_domain"
    res = core.run_driver("C12", [firm_bad_op(b, op) for b in bads])
    for b, m in zip(bads, res):
        raises = bool(m) if kind == "correspondence" else not bool(m)
        ctx.case(batch, b, nontrivial=False)
        tag_firm_bad(ctx, b)
        got = firm_bad_outcome(b)
        exp = "ValueError" if raises else "ok"
        if got != exp:
            sig = "guard" if kind == "correspondence" else ("accepts-outside-domain" if raises else "rejects-inside-domain")
            ctx.fail(batch, kind, "firm", sig, dict(b, check="firm-guard"), observed=got, expected=exp,
                     tags={"fault": "+".join(b.get("fault") or ["none"])},
                     theorem=None if kind == "correspondence" else "firm_guard_iff_domain")


# ------------------------------------------------------------------------------------------ risk matrix
PROBS = [0.1, 0.25, 0.3, 0.5, 0.75, 0.9, 0.05, 0.625]


# severity labels are LABELS: the j-th supplied label names the j-th column whatever its sort position
LABEL_FAMILIES = [["S0", "S1", "S2"], [1, 2, 3], [30, 20, 10], ["MOD+", "SEV+", "EXT"], ["minor", "moderate", "major"],
                  ["SEV+", "MOD+", "EXT"], [3, 1, 2], ["low", "high", "extreme"], [-1, -2, -3], ["b", "a", "C"]]
LABEL_POOLS = [["MOD+", "SEV+", "EXT", "minor", "moderate", "major", "S0", "S1", "S2", "low", "high", "Z", "a"],
               [0, 1, 2, 3, 5, 10, 20, 30, 100, -1, -5]]


def gen_labels(rng, n):
    """n distinct severity labels, all str or all int; in 2 of 3 draws their given order differs from their sorted order"""
    r = rng.random()
    if r < 0.5:
        lab = list(rng.choice(LABEL_FAMILIES))[:n]
    else:
        lab = rng.sample(rng.choice(LABEL_POOLS), n)
    if n > 1 and lab == sorted(lab) and rng.random() < 0.6:
        lab = lab[::-1] if n == 2 or rng.random() < 0.5 else [lab[1], lab[2], lab[0]] if n == 3 else lab[::-1]
    return lab


def lab_str(sev):
    return [str(x) for x in sev]


def tag_labels(ctx, what, sev, probs=None):
    ctx.tag(what + ":labels=" + ("int" if isinstance(sev[0], int) else "str") + ("-sorted" if list(sev) == sorted(sev) else "-unsorted"))
    if probs is not None and len(probs) > 1:
        ctx.tag(what + ":probs=" + ("increasing" if list(probs) == sorted(probs) else
                                    "decreasing" if list(probs) == sorted(probs, reverse=True) else "unsorted"))


def gen_rm(rng):
    ns, npr = rng.randint(1, 3), rng.randint(1, 3)
    probs = rng.sample(PROBS, npr)
    sev = gen_labels(rng, ns)
    ncase = rng.randint(1, 4)
    W = [[rng.choice([0.0, 1.0, 2.0, 0.5, 3.0]) for _ in range(ns)] for _ in range(npr)]
    if rng.random() < 0.08:
        W[rng.randrange(npr)][rng.randrange(ns)] = NAN
    pn = rng.choice([0, 0, 0.12])

    def fdraw():
        if rng.random() < pn:
            return NAN
        r = rng.random()
        if r < 0.5:
            return rng.choice(probs)
        return rng.choice([0.0, 1.0, 0.2, 0.4, 0.6, 0.8, 0.125, 0.95])
    fc = [[fdraw() for _ in range(ns)] for _ in range(ncase)]
    ob = [[(NAN if rng.random() < pn else rng.choice([0.0, 1.0])) for _ in range(ns)] for _ in range(ncase)]
    perm_s = list(range(ns)); rng.shuffle(perm_s)
    perm_ws = list(range(ns)); rng.shuffle(perm_ws)
    perm_wp = list(range(npr)); rng.shuffle(perm_wp)
    return dict(probs=probs, sev=sev, W=W, fcst=fc, obs=ob, mode=rng.choice(["lower", "upper"]), perm_s=perm_s,
                perm_ws=perm_ws, perm_wp=perm_wp, w_transposed=rng.random() < 0.5, reduce=rng.choice(["none", "everything"]))


def call_rm(c):
    from scores.emerging import risk_matrix_score
    ncase, ns = len(c["fcst"]), len(c["sev"])
    f = xr.DataArray(np.array(c["fcst"], dtype=float), dims=["case", "sev"], coords={"case": list(range(ncase)), "sev": c["sev"]})
    o = xr.DataArray(np.array(c["obs"], dtype=float), dims=["case", "sev"], coords={"case": list(range(ncase)), "sev": c["sev"]})
    o = o.isel(sev=c["perm_s"])
    w = xr.DataArray(np.array(c["W"], dtype=float), dims=["prob", "sev"], coords={"prob": c["probs"], "sev": c["sev"]})
    w = w.isel(prob=c["perm_wp"], sev=c["perm_ws"])
    if c["w_transposed"]:
        w = w.transpose("sev", "prob")
    kw = {"preserve_dims": fresh("all")} if c["reduce"] == "none" else {}
    with np.errstate(all="ignore"):
        r = risk_matrix_score(f, o, w, dimname("sev"), dimname("prob"), threshold_assignment=fresh(c["mode"]), **kw)
    return r


def rm_op(c):
    return {"op": "c12.rm", "args": {"mode": c["mode"],
                                     "W": [[core.fl_str(p), [core.fl_str(x) for x in row]] for p, row in zip(c["probs"], c["W"])],
                                     "cases": [[[core.fl_str(f), core.fl_str(o)] for f, o in zip(rf, ro)]
                                               for rf, ro in zip(c["fcst"], c["obs"])]}}


def rm_compare(c, res, key):
    tags = {"mode": c["mode"], "source": key}
    try:
        r = call_rm(c)
    except Exception as ex:  # noqa: BLE001
        return [("risk_matrix_score", "exception", core.exc_class(ex) + ": " + str(ex)[:200], "values", tags)]
    exp = res[key]
    fails = []
    if c["reduce"] == "none":
        got = r.sortby("case").values
        for i, e in enumerate(exp):
            if not core.close(got[i], e):
                fails.append(("risk_matrix_score", "case-value", float(got[i]), e, dict(tags, case=i)))
    else:
        vals = [core.parse_fl(e) for e in exp]
        fin = [float(v) for v in vals if not core.is_nan(v)]
        m = sum(fin) / len(fin) if fin else NAN
        if not core.close_ff(float(r.values), m):
            fails.append(("risk_matrix_score", "mean-value", float(r.values), m, dict(tags, reduce="everything")))
    return fails


# ---- malformed / boundary stream of risk_matrix_score: 2 cases x 2 severity categories x 2 probability thresholds
F_OK = [0.0, 1.0, 0.5, TINY, 1 - TINY, NAN, -0.0]
F_BAD = [1 + TINY, -TINY, 1.25, -0.25, 2.0, core.INF, -core.INF]
O_OK = [0.0, 1.0, NAN, -0.0]
O_BAD = [0.5, 2.0, -1.0, TINY, 1 - TINY, 1 + TINY, core.INF, -core.INF]
P_OK = [TINY, 1 - TINY, 0.5]
P_BAD = [0.0, 1.0, -0.0, -TINY, 1 + TINY, 1.5, -0.25, core.INF]


def rm_bad_base():
    return dict(fcst=[[0.5, 0.0], [1.0, 0.25]], obs=[[0.0, 1.0], [1.0, 0.0]], probs=[0.25, 0.75], pint=False, oint=False,
                mode="lower", fault=[])


def rm_bad_grid():
    out = []

    def put(fault, **kw):
        out.append(dict(rm_bad_base(), fault=[fault], **kw))
    base = rm_bad_base()
    for pos in np.ndindex((2, 2)):
        for v in F_OK:
            put("fcst-ok", fcst=_set_elem(base["fcst"], pos, v))
        for v in F_BAD:
            put("fcst", fcst=_set_elem(base["fcst"], pos, v))
        for v in O_OK:
            put("obs-ok", obs=_set_elem(base["obs"], pos, v))
        for v in O_BAD:
            put("obs", obs=_set_elem(base["obs"], pos, v))
    put("obs", obs=[[0, 1], [2, 0]], oint=True)
    put("obs", obs=[[0, -1], [1, 0]], oint=True)
    put("obs-ok", obs=[[0, 1], [1, 0]], oint=True)
    for k in (0, 1):
        for v in P_OK:
            put("prob-ok", probs=_set_elem([0.25, 0.75], (k,), v))
        for v in P_BAD:
            put("prob", probs=_set_elem([0.25, 0.75], (k,), v))
    for v in P_BAD[:2] + P_OK[:2]:
        put("prob" if v in P_BAD else "prob-ok", probs=[v])
    put("prob", probs=[0], pint=True)
    put("prob", probs=[1], pint=True)
    put("prob", probs=[0, 1], pint=True)
    for m in MODE_BAD:
        put("mode", mode=m)
    put("mode-ok", mode="upper")
    return out


def gen_rm_bad(rng):
    b = rm_bad_base()
    b["fcst"] = [[rng.choice(F_OK + [0.25, 0.75]) for _ in range(2)] for _ in range(2)]
    b["obs"] = [[rng.choice(O_OK) for _ in range(2)] for _ in range(2)]
    b["probs"] = rng.choice([[0.25, 0.75], [0.75, 0.25], [0.5], [TINY, 1 - TINY], [0.25, 0.5]])
    b["mode"] = rng.choice(["lower", "upper"])
    r = rng.random()
    nf = 0 if r < 0.15 else (1 if r < 0.8 else 2)
    for fault in rng.sample(["fcst", "obs", "prob", "mode"], nf):
        b["fault"].append(fault)
        pos = (rng.randrange(2), rng.randrange(2))
        if fault == "fcst":
            b["fcst"] = _set_elem(b["fcst"], pos, rng.choice(F_BAD))
        elif fault == "obs":
            b["obs"] = _set_elem(b["obs"], pos, rng.choice(O_BAD))
        elif fault == "prob":
            b["probs"] = _set_elem(b["probs"], (rng.randrange(len(b["probs"])),), rng.choice(P_BAD))
        else:
            b["mode"] = rng.choice(MODE_BAD)
    return b


def rm_bad_outcome(b):
    from scores.emerging import risk_matrix_score
    sev = ["S0", "S1"]
    f = xr.DataArray(np.array(b["fcst"], dtype=float), dims=["case", "sev"], coords={"sev": sev})
    o = xr.DataArray(np.array(b["obs"], dtype=(int if b.get("oint") else float)), dims=["case", "sev"], coords={"sev": sev})
    probs = np.array(b["probs"], dtype=(int if b.get("pint") else float))
    w = xr.DataArray(np.ones((len(b["probs"]), 2)), dims=["prob", "sev"], coords={"prob": probs, "sev": sev})
    try:
        with np.errstate(all="ignore"):
            r = risk_matrix_score(f, o, w, dimname("sev"), dimname("prob"), threshold_assignment=fresh(b["mode"]),
                                  preserve_dims=fresh("all"))
        return "ok" if isinstance(r, xr.DataArray) else "returned " + type(r).__name__
    except Exception as ex:  # noqa: BLE001
        return core.exc_class(ex)


def rm_bad_op(b, op="c12.rm_check"):
    flat = lambda m: [core.fl_str(float(x)) for row in m for x in row]
    return {"op": op, "args": {"fcst": flat(b["fcst"]), "obs": flat(b["obs"]),
                               "probs": [core.fl_str(float(x)) for x in b["probs"]], "mode": b["mode"]}}


def rm_guard_batch(ctx, batch, kind, n_random):
    bads = rm_bad_grid() + [gen_rm_bad(ctx.rng) for _ in range(n_random)]
    op = "c12.rm_check" if kind == "correspondence" else "c12.rm_domain"
    res = core.run_driver("C12", [rm_bad_op(b, op) for b in bads])
    for b, m in zip(bads, res):
        raises = bool(m) if kind == "correspondence" else not bool(m)
        ctx.case(batch, b, nontrivial=False)
        ctx.tag("malformed")
        for fl in (b.get("fault") or ["none"]):
            ctx.tag("rm-guard:" + fl)
        got = rm_bad_outcome(b)
        exp = "ValueError" if raises else "ok"
        if got != exp:
            sig = "guard" if kind == "correspondence" else ("accepts-outside-domain" if raises else "rejects-inside-domain")
            ctx.fail(batch, kind, "risk_matrix_score", sig, dict(b, check="rm-guard"), observed=got, expected=exp,
                     tags={"fault": "+".join(b.get("fault") or ["none"])},
                     theorem=None if kind == "correspondence" else "rm_guard_iff_domain")


# ---- probability-threshold coordinates of the two weight-matrix constructors: strictly inside (0, 1)
def pc_grid():
    out = []
    for k in (0, 1):
        for v in P_OK + P_BAD:
            out.append(dict(probs=_set_elem([0.25, 0.75], (k,), v), pint=False))
    out += [dict(probs=[0, 1], pint=True), dict(probs=[1, 0], pint=True)]
    return out


def pc_outcome(c, which):
    from scores.emerging import matrix_weights_to_array, weights_from_warning_scaling
    probs = [int(p) for p in c["probs"]] if c.get("pint") else list(c["probs"])
    try:
        if which == "matrix_weights_to_array":
            r = matrix_weights_to_array(np.array([[1.0, 2.0], [3.0, 4.0]]), dimname("sev"), ["S0", "S1"], dimname("prob"), probs)
        else:
            r = weights_from_warning_scaling(np.array([[0, 1, 2], [0, 1, 1], [0, 0, 0]]), [1.0, 2.0], dimname("sev"),
                                             ["S0", "S1"], dimname("prob"), probs)
        return "ok" if isinstance(r, xr.DataArray) else "returned " + type(r).__name__
    except Exception as ex:  # noqa: BLE001
        return core.exc_class(ex)


def pc_guard_batch(ctx, batch):
    cs = pc_grid()
    res = core.run_driver("C12", [{"op": "c12.rm_domain", "args": {"fcst": [], "obs": [], "mode": "lower",
                                                                   "probs": [core.fl_str(float(x)) for x in c["probs"]]}}
                                  for c in cs])
    for c, m in zip(cs, res):
        for which in ("matrix_weights_to_array", "weights_from_warning_scaling"):
            ctx.case(batch, dict(c, which=which), nontrivial=False)
            ctx.tag("malformed")
            got = pc_outcome(c, which)
            exp = "ok" if m else "ValueError"
            if got != exp:
                ctx.fail(batch, "property", which, "accepts-outside-domain" if not m else "rejects-inside-domain",
                         dict(c, which=which, check="pc-guard"), observed=got, expected=exp)


# ------------------------------------------------------------------------------------------ weight matrices
def gen_mw(rng, bad=False):
    r, c = rng.randint(1, 4), rng.randint(1, 3)
    M = [[float(rng.randint(0, 9)) for _ in range(c)] for _ in range(r)]
    probs = rng.sample(PROBS, r)
    sev = gen_labels(rng, c)
    if bad:
        k = rng.choice(["rows", "cols", "p>=1", "p<=0"])
        if k == "rows":
            probs = probs + [0.45]
        elif k == "cols":
            sev = sev + ([777] if isinstance(sev[0], int) else ["X"])
        elif k == "p>=1":
            probs[0] = rng.choice([1.0, 1.5])
        else:
            probs[0] = rng.choice([0.0, -0.5])
    return dict(M=M, probs=probs, sev=sev)


def call_mw(c):
    from scores.emerging import matrix_weights_to_array
    return matrix_weights_to_array(np.array(c["M"]), dimname("sev"), c["sev"], dimname("prob"), c["probs"])


def mw_op(c):
    return {"op": "c12.mw", "args": {"M": [[core.fl_str(x) for x in row] for row in c["M"]], "sev": lab_str(c["sev"]),
                                     "probs": [core.fl_str(p) for p in c["probs"]]}}


def mw_property(c):
    """orientation on the implementation: coordinate decreasing; row i <-> i-th largest threshold; invariant under the
    order in which the coordinates are supplied"""
    fails = []
    try:
        da = call_mw(c)
    except Exception as ex:  # noqa: BLE001
        return [("matrix_weights_to_array", "exception", core.exc_class(ex), "a DataArray", {})]
    pc = [float(x) for x in da["prob"].values]
    if pc != sorted(c["probs"], reverse=True):
        fails.append(("matrix_weights_to_array", "prob-coords-not-decreasing", pc, sorted(c["probs"], reverse=True), {}))
    for i, p in enumerate(sorted(c["probs"], reverse=True)):
        for j, s in enumerate(c["sev"]):
            if float(da.sel(prob=p, sev=s).values) != c["M"][i][j]:
                fails.append(("matrix_weights_to_array", "row-not-ith-largest", float(da.sel(prob=p, sev=s).values), c["M"][i][j],
                              {"row": i, "col": j}))
                return fails
    c2 = dict(c, probs=list(reversed(c["probs"])))
    if not call_mw(c2).equals(da):
        fails.append(("matrix_weights_to_array", "depends-on-coordinate-order", "differs", "equal", {}))
    return fails


def gen_scaling(rng):
    rows, cols = rng.randint(2, 5), rng.randint(2, 4)
    maxl = rng.randint(1, 3)
    S = [[0] * cols for _ in range(rows)]
    for i in range(rows - 2, -1, -1):          # from the second-last row upwards: >= row below, non-decreasing along the row
        prev = 0
        for j in range(1, cols):
            lo = max(prev, S[i + 1][j])
            S[i][j] = min(maxl, lo + rng.choice([0, 0, 1, 1, 2]))
            prev = S[i][j]
    mx = max(max(r) for r in S)
    nw = max(mx, 1) + rng.choice([0, 0, 1])
    w = [rng.choice([1.0, 2.0, 3.0, 0.5]) for _ in range(nw)]
    probs = rng.sample(PROBS, rows - 1)
    sev = gen_labels(rng, cols - 1)
    return dict(S=S, w=w, probs=probs, sev=sev)


def call_scaling(c):
    from scores.emerging import weights_from_warning_scaling
    return weights_from_warning_scaling(np.array(c["S"]), c["w"], dimname("sev"), c["sev"], dimname("prob"), c["probs"])


def wfs_op(c):
    return {"op": "c12.wfs", "args": {"S": c["S"], "w": [core.fl_str(x) for x in c["w"]], "sev": lab_str(c["sev"]),
                                      "probs": [core.fl_str(p) for p in c["probs"]]}}


def labelled(da, c):
    """the returned DataArray as the driver prints a WeightArray: both coordinates, the data with rows = prob dim, and the
    weight found BY LABEL under every supplied (probability threshold, severity label)"""
    return {"prob": [core.fl_str(float(x)) for x in da["prob"].values], "sev": [str(x) for x in da["sev"].values],
            "data": [[core.fl_str(float(x)) for x in row] for row in da.transpose("prob", "sev").values],
            "lookup": [[core.fl_str(float(da.sel(prob=p, sev=s).values)) for s in c["sev"]] for p in c["probs"]]}


def scaling_lean_spec(cs):
    """Spec.Firm.scalingWeights / scalingWeightsCut / cornerMatrix and the two domain predicates, evaluated by the Lean driver"""
    res = core.run_driver("C12", [{"op": "c12.scaling_spec", "args": {"S": c["S"], "w": [core.fl_str(x) for x in c["w"]]}}
                                  for c in cs])
    out = []
    for r in res:
        f = lambda M: [[float(core.parse_fl(x)) for x in row] for row in M]      # noqa: E731
        out.append(dict(domain=bool(r["domain"]), doc_domain=bool(r["doc_domain"]), spec=f(r["spec"]), cut=f(r["cut"]),
                        corners=[f(M) for M in r["corners"]]))
    return out


def level_sum_values(c):
    """(risk_matrix_score with the warning-scaling weights, sum_l w_l * risk_matrix_score with the corner matrix of level l)"""
    from scores.emerging import matrix_weights_to_array, risk_matrix_score
    da = call_scaling(c)
    f = xr.DataArray(np.array(c["fcst"]), dims=["case", "sev"], coords={"sev": c["sev"]})
    o = xr.DataArray(np.array(c["obs"]), dims=["case", "sev"], coords={"sev": c["sev"]})
    kw = dict(threshold_assignment=fresh(c["mode"]), preserve_dims=fresh("all"))
    total = risk_matrix_score(f, o, da, dimname("sev"), dimname("prob"), **kw).values
    parts = np.zeros(len(c["fcst"]))
    for wl, M in zip(c["w"], c["corners"]):
        wa = matrix_weights_to_array(np.array(M), dimname("sev"), c["sev"], dimname("prob"), c["probs"])
        parts = parts + wl * risk_matrix_score(f, o, wa, dimname("sev"), dimname("prob"), **kw).values
    return [float(x) for x in total], [float(x) for x in parts]


def scaling_level_sum(ctx, c, sp):
    """rm_score_scaling_eq_level_sum between implementation runs: risk_matrix_score with the warning-scaling weights =
    sum over the levels of w_l * risk_matrix_score with the 0/1 weights on the corner decision points of level l
    (corner matrices = Spec.Firm.cornerMatrix evaluated by the Lean driver)"""
    rng = ctx.rng
    ns = len(c["sev"])
    c2 = dict(c, check="scaling-level-sum", corners=sp["corners"], mode=rng.choice(["lower", "upper"]),
              fcst=[[rng.choice(c["probs"] + [0.0, 1.0, 0.2, 0.6, 0.95]) for _ in range(ns)] for _ in range(3)],
              obs=[[rng.choice([0.0, 1.0]) for _ in range(ns)] for _ in range(3)])
    total, parts = level_sum_values(c2)
    if not all(core.close_ff(a, b) for a, b in zip(total, parts)):
        ctx.fail("weight-matrix-orientation", "property", "risk_matrix_score", "score!=level-sum", c2, observed=total,
                 expected=parts, tags={"mode": c2["mode"]}, theorem="rm_score_scaling_eq_level_sum")


# ---- risk matrix score with weights built by one of the two constructors = the Lean double sum over
#      (i-th largest probability threshold, j-th severity label AS GIVEN) of weight * penalty
def gen_built(rng, c, builder, W):
    """c: a gen_mw / gen_scaling case; W: the weights the Lean statements attach to (i-th largest threshold, j-th supplied label)
    (matrix_weights_lookup: the supplied matrix itself; weights_from_scaling_lookup: Spec.Firm.scalingWeights[Cut])"""
    ns = len(c["sev"])
    perm = list(range(ns)); rng.shuffle(perm)
    return dict(c, check="built-rm", builder=builder, W=W, mode=rng.choice(["lower", "upper"]), perm_s=perm,
                fcst=[[rng.choice(c["probs"] + [0.0, 1.0, 0.2, 0.6, 0.95]) for _ in range(ns)] for _ in range(3)],
                obs=[[rng.choice([0.0, 1.0]) for _ in range(ns)] for _ in range(3)])


def built_rm_op(c):
    pd = sorted(c["probs"], reverse=True)
    return {"op": "c12.rm", "args": {"mode": c["mode"],
                                     "W": [[core.fl_str(p), [core.fl_str(x) for x in row]] for p, row in zip(pd, c["W"])],
                                     "cases": [[[core.fl_str(f), core.fl_str(o)] for f, o in zip(rf, ro)]
                                               for rf, ro in zip(c["fcst"], c["obs"])]}}


def built_rm_values(c):
    """risk_matrix_score of forecasts / observations labelled with the severity labels in the given order (observations stored
    in a permuted order) with the weights returned by matrix_weights_to_array / weights_from_warning_scaling"""
    from scores.emerging import risk_matrix_score
    da = call_mw(c) if c["builder"] == "mw" else call_scaling(c)
    coords = {"case": list(range(len(c["fcst"]))), "sev": c["sev"]}
    f = xr.DataArray(np.array(c["fcst"], dtype=float), dims=["case", "sev"], coords=coords)
    o = xr.DataArray(np.array(c["obs"], dtype=float), dims=["case", "sev"], coords=coords).isel(sev=c["perm_s"])
    with np.errstate(all="ignore"):
        r = risk_matrix_score(f, o, da, dimname("sev"), dimname("prob"), threshold_assignment=fresh(c["mode"]),
                              preserve_dims=fresh("all"))
    return [float(x) for x in r.sortby("case").values]


def built_rm_fails(c, res):
    try:
        got = built_rm_values(c)
    except Exception as ex:  # noqa: BLE001
        return [("exception", core.exc_class(ex) + ": " + str(ex)[:200], res["spec"])]
    if not all(core.close(g, e) for g, e in zip(got, res["spec"])):
        return [("score-with-built-weights!=double-sum", got, res["spec"])]
    return []


def built_rm_batch(ctx, built):
    res = core.run_driver("C12", [built_rm_op(c) for c in built]) if built else []
    for c, r in zip(built, res):
        ctx.case("weight-matrix-orientation", c, nontrivial=any(x not in ("0", "nan") for x in r["spec"]))
        ctx.tag("built-rm:" + c["builder"])
        for sig, ob, ex in built_rm_fails(c, r):
            ctx.fail("weight-matrix-orientation", "property", "risk_matrix_score", sig, c, observed=ob, expected=ex,
                     tags={"builder": c["builder"], "mode": c["mode"]},
                     theorem="matrix_weights_lookup" if c["builder"] == "mw" else "weights_from_scaling_lookup")


def scaling_spec(c):
    """declarative statement of the Appendix-B weights (independent of the loop in the code): level l puts its assessment
    weight w_l on the corner points of the staircase {S >= l}: decision point (row r counted from the bottom, severity column j)
    with r = h_j(l) = lowest row where column j reaches level l, provided r is strictly below every h_j'(l) of the less severe
    columns j' < j.  Returned with rows in decreasing probability (top row = highest threshold)."""
    S, w = c["S"], c["w"]
    rows, cols = len(S), len(S[0])
    n_prob, n_sev = rows - 1, cols - 1
    W = [[0.0] * n_sev for _ in range(n_prob)]          # W[r-1][j-1], r from the bottom
    for lvl in range(1, len(w) + 1):
        best = n_prob + 1
        for j in range(1, cols):
            hs = [r for r in range(rows) if S[rows - 1 - r][j] >= lvl]
            if not hs:
                continue
            h = min(hs)
            if 0 < h < best:
                W[h - 1][j - 1] += w[lvl - 1]
                best = h
    return W[::-1]


# ------------------------------------------------------------------------------------------ interface
def correspondence(ctx):
    run_firm_batch(ctx, "impl-vs-model:firm", "correspondence", "c12.firm", ctx.n(120, 2500))
    run_firm_dtype_batch(ctx, "impl-vs-model:firm-storage-dtypes", "correspondence", "c12.firm", ctx.n(24, 400))
    run_firm_inf_batch(ctx, "impl-vs-model:firm-infinite", "correspondence", ctx.n(18, 150))
    run_firm_cont_batch(ctx, "impl-vs-model:firm-containers", "correspondence", "c12.firm", ctx.n(17, 300))
    firm_guard_batch(ctx, "impl-vs-model:firm-guards", "correspondence", ctx.n(60, 600))
    rms = [gen_rm(ctx.rng) for _ in range(ctx.n(120, 2500))]
    res = core.run_driver("C12", [rm_op(c) for c in rms])
    for c, r in zip(rms, res):
        ctx.case("impl-vs-model:risk_matrix_score", c, nontrivial=any(x not in ("0", "nan") for x in r["model"]))
        ctx.tag("rm:mode=" + c["mode"])
        for site, sig, ob, ex, tags in rm_compare(c, r, "model"):
            ctx.fail("impl-vs-model:risk_matrix_score", "correspondence", site, sig, dict(c, check="rm"), observed=ob,
                     expected=ex, tags=tags)
    rm_guard_batch(ctx, "impl-vs-model:rm-guards", "correspondence", ctx.n(40, 400))
    # weight matrices
    mws = [gen_mw(ctx.rng, bad=(k % 5 == 4)) for k in range(ctx.n(60, 600))]
    res = core.run_driver("C12", [mw_op(c) for c in mws])
    for c, m in zip(mws, res):
        ctx.case("impl-vs-model:matrix_weights_to_array", c)
        try:
            da = call_mw(c)
            got = labelled(da, c)
        except Exception as ex:  # noqa: BLE001
            got = {"err": core.exc_class(ex)}
        exp = m
        if got != exp:
            ctx.fail("impl-vs-model:matrix_weights_to_array", "correspondence", "matrix_weights_to_array", "array",
                     dict(c, check="mw"), observed=got, expected=exp)
    scs = [gen_scaling(ctx.rng) for _ in range(ctx.n(80, 1500))]
    res = core.run_driver("C12", [{"op": "c12.scaling", "args": {"S": c["S"], "w": [core.fl_str(x) for x in c["w"]]}} for c in scs]
                          + [wfs_op(c) for c in scs])
    for c, m, ml in zip(scs, res[:len(scs)], res[len(scs):]):
        ctx.case("impl-vs-model:weights_from_warning_scaling", c)
        try:
            da = call_scaling(c)
            got = [[core.fl_str(float(x)) for x in row] for row in da.transpose("prob", "sev").values]
            if [float(x) for x in da["prob"].values] != sorted(c["probs"], reverse=True):
                got = "prob coords " + str(da["prob"].values)
            gotl = labelled(da, c)
        except Exception as ex:  # noqa: BLE001
            got = gotl = {"err": core.exc_class(ex)}
        if got != m:
            ctx.fail("impl-vs-model:weights_from_warning_scaling", "correspondence", "weights_from_warning_scaling", "array",
                     dict(c, check="scaling"), observed=got, expected=m)
        elif gotl != ml:      # the labelled array: coordinates of both dims and the weight stored under every pair of labels
            ctx.fail("impl-vs-model:weights_from_warning_scaling", "correspondence", "weights_from_warning_scaling", "labels",
                     dict(c, check="scaling"), observed=gotl, expected=ml)
        tall = len(c["S"]) - 1 > max(max(max(r) for r in c["S"]), len(c["w"]))
        if tall:
            ctx.tag("scaling:n_prob>max_level (notes/C12.md N1)")


def oracle(ctx, boost):
    m = 5 if boost else 1
    run_firm_batch(ctx, "impl-vs-spec:firm", "property", "c12.firm_spec", ctx.n(100, 2000) * (2 if boost else 1), murphy=True)
    # storage dtypes of fcst / obs / thresholds (uint8 .. float32; thresholds as Python ints, floats, numpy scalars, arrays),
    # discount 0 / finite / inf, both assignments: expected = the Lean Spec on the VALUES
    run_firm_dtype_batch(ctx, "impl-vs-spec:firm-storage-dtypes", "property", "c12.firm_spec", ctx.n(72, 1500) * (2 if boost else 1))
    # +inf / -inf forecasts, observations, thresholds (scalar and array; +inf top, -inf bottom), discount 0 / finite / inf, both
    # assignments: expected = the Lean Spec in extended-real arithmetic (firmCaseX); FIRM = sum w * Murphy where both are defined
    run_firm_inf_batch(ctx, "impl-vs-spec:firm-infinite", "property", ctx.n(48, 500) * (2 if boost else 1), murphy=True)
    # the two sequences in every container the signature allows (list, tuple, ndarray, pandas Series with default / permuted /
    # filtered / string index, Index, 1-D DataArray, sequences of DataArrays): weights pair with thresholds BY POSITION
    run_firm_cont_batch(ctx, "impl-vs-spec:firm-containers", "property", "c12.firm_spec", ctx.n(51, 1200) * (2 if boost else 1))
    if boost:
        for mode in ("lower", "upper"):
            run_firm_batch(ctx, "impl-vs-spec:firm", "property", "c12.firm_spec", 80, murphy=True, mode=mode)
    rms = [gen_rm(ctx.rng) for _ in range(ctx.n(150, 3000) * m)]
    res = core.run_driver("C12", [rm_op(c) for c in rms])
    for c, r in zip(rms, res):
        ctx.case("impl-vs-spec:risk_matrix_score", c, nontrivial=any(x not in ("0", "nan") for x in r["spec"]))
        if any(core.is_nan(v) for row in c["fcst"] + c["obs"] + c["W"] for v in row):
            ctx.tag("rm:nan-in-case")
        if any(f in c["probs"] for row in c["fcst"] for f in row):
            ctx.tag("rm:fcst==threshold")
        if any(f in (0.0, 1.0) for row in c["fcst"] for f in row):
            ctx.tag("rm:fcst-on-0/1-boundary")
        tag_labels(ctx, "rm", c["sev"], c["probs"])
        for site, sig, ob, ex, tags in rm_compare(c, r, "spec"):
            ctx.fail("impl-vs-spec:risk_matrix_score", "property", site, sig, dict(c, check="rm"), observed=ob, expected=ex,
                     tags=tags, theorem="rm_case_eq_spec")
    built = []
    for _ in range(ctx.n(60, 600) * m):
        c = gen_mw(ctx.rng)
        ctx.case("weight-matrix-orientation", c)
        tag_labels(ctx, "mw", c["sev"], c["probs"])
        bad = mw_property(c)
        for site, sig, ob, ex, tags in bad:
            ctx.fail("weight-matrix-orientation", "property", site, sig, dict(c, check="mw-property"), observed=ob, expected=ex,
                     tags=tags, theorem="matrix_weights_lookup" if sig == "row-not-ith-largest" else "matrix_weights_rows_decreasing")
        if not any(sig == "exception" for _, sig, _, _, _ in bad):
            built.append(gen_built(ctx.rng, c, "mw", c["M"]))
    scs = [gen_scaling(ctx.rng) for _ in range(ctx.n(40, 400) * m)]
    lean = scaling_lean_spec(scs)
    for c, sp in zip(scs, lean):
        ctx.case("weight-matrix-orientation", c)
        tag_labels(ctx, "wfs", c["sev"], c["probs"])
        try:
            da = call_scaling(c)
        except Exception as ex:  # noqa: BLE001
            ctx.fail("weight-matrix-orientation", "property", "weights_from_warning_scaling", "exception", dict(c, check="scaling-property"),
                     observed=core.exc_class(ex), expected="a DataArray")
            continue
        pc = [float(x) for x in da["prob"].values]
        v = da.values
        ok = pc == sorted(c["probs"], reverse=True) and v.shape == (len(c["probs"]), len(c["sev"])) and bool((v >= 0).all())
        if not ok:
            ctx.fail("weight-matrix-orientation", "property", "weights_from_warning_scaling", "shape/orientation/sign",
                     dict(c, check="scaling-property"), observed={"prob": pc, "values": v.tolist()},
                     expected="rows in decreasing probability, shape (n_prob, n_sev), non-negative")
            continue
        got = da.transpose("prob", "sev").values.tolist()
        # the statement of scaling_weights_eq_spec / scaling_weights_eq_cut on the implementation, Spec evaluated in Lean:
        # inside `scalingDomain` the level-set weights; on the rest of the documented domain the weights cut off above row
        # height len(assessment_weights) (N1); columns labelled in the supplied order (matrix_weights_lookup)
        ctx.tag("scaling:" + ("domain" if sp["domain"] else "doc-domain-only" if sp["doc_domain"] else "outside-doc-domain"))
        if sp["doc_domain"]:
            # doc-domain-only: the loop's actual result (cut, N1) — or the level-set weights themselves, should N1 get repaired
            want = sp["spec"] if (sp["domain"] or got == sp["spec"]) else sp["cut"]
            bylabel = [[float(da.sel(prob=p, sev=s_).values) for s_ in c["sev"]] for p in sorted(c["probs"], reverse=True)]
            built.append(gen_built(ctx.rng, c, "wfs", want))
            if got != want or bylabel != want or [str(x) for x in da["sev"].values] != lab_str(c["sev"]):
                ctx.fail("weight-matrix-orientation", "property", "weights_from_warning_scaling",
                         "weights!=level-set-spec" if sp["domain"] else "weights!=cut-level-set-spec",
                         dict(c, check="scaling-property"), observed={"data": got, "by-label": bylabel,
                                                                      "sev": [str(x) for x in da["sev"].values]},
                         expected=want, theorem="scaling_weights_eq_spec" if sp["domain"] else "scaling_weights_eq_cut")
                continue
            if sp["domain"]:
                scaling_level_sum(ctx, c, sp)
        spec = scaling_spec(c)
        if got != spec:
            tall = len(c["S"]) - 1 > max(max(max(r) for r in c["S"]), len(c["w"]))
            if tall:      # notes/C12.md N1: `lowest_prob_index = max_level + 1` loses crossovers above row max_level
                ctx.tag("finding:scaling-tall-matrix-loses-level")
                if not FINDINGS:
                    continue
            ctx.fail("weight-matrix-orientation", "property", "weights_from_warning_scaling", "weights!=staircase-corners",
                     dict(c, check="scaling-property"), observed=got, expected=spec,
                     tags={"finding": "scaling-tall"} if tall else {})
    built_rm_batch(ctx, built)
    scaling_probe(ctx)
    # the documented parameter domains on the implementation: boundary grid (deterministic) + random one/two-fault stream
    firm_guard_batch(ctx, "impl-vs-spec:firm-domain", "property", ctx.n(60, 600) * m)
    rm_guard_batch(ctx, "impl-vs-spec:rm-domain", "property", ctx.n(40, 400) * m)
    pc_guard_batch(ctx, "impl-vs-spec:prob-threshold-domain")


def scaling_probe(ctx):
    """tall scaling matrix with few levels (notes/C12.md N1): recorded, failed only with C12_FINDINGS=1"""
    from scores.emerging.risk_matrix import _scaling_to_weight_matrix
    S = np.array([[0, 1], [0, 1], [0, 0], [0, 0], [0, 0]])
    w = _scaling_to_weight_matrix(S, [1])
    if float(w.sum()) == 0.0:
        ctx.tag("finding:scaling-tall-matrix-loses-level")
        if FINDINGS:
            ctx.fail("weight-matrix-orientation", "property", "_scaling_to_weight_matrix", "level-crossover-lost",
                     {"S": S.tolist(), "w": [1], "check": "scaling-probe"}, observed=w.tolist(), expected=[[0], [1], [0], [0]],
                     tags={"finding": "scaling-tall"})


def _unnan(x):
    if isinstance(x, list):
        return [_unnan(v) for v in x]
    if isinstance(x, dict):
        return {k: _unnan(v) for k, v in x.items()}
    if x == "nan":
        return NAN
    if x == "inf":
        return core.INF
    if x == "-inf":
        return -core.INF
    return x


def replay(ctx, payload):
    case = _unnan(payload["case"])
    chk = case.get("check")
    if chk == "firm":
        res = core.run_driver("C12", firm_ops(case, "c12.firm_spec"))
        return bool(firm_compare(case, res, "spec"))
    if chk == "firm-murphy":
        return bool(firm_vs_murphy(case))
    if chk == "firm-x":
        res = core.run_driver("C12", firm_ops(case, "c12.firm_x"))
        return bool(firm_compare(case, res, "spec-extended-reals"))
    if chk == "firm-x-murphy":
        res = core.run_driver("C12", firm_ops(case, "c12.firm_x"))
        return bool(firm_vs_murphy(case, murphy_skip_inf(case, res[0])))
    if chk == "rm":
        res = core.run_driver("C12", [rm_op(case)])
        return bool(rm_compare(case, res[0], "spec"))
    if chk in ("mw-property", "mw"):
        return bool(mw_property(case))
    if chk == "scaling-property":
        da = call_scaling(case)
        got = da.transpose("prob", "sev").values.tolist()
        sp = scaling_lean_spec([case])[0]
        if sp["doc_domain"]:
            want = sp["spec"] if (sp["domain"] or got == sp["spec"]) else sp["cut"]
            bylabel = [[float(da.sel(prob=p, sev=s_).values) for s_ in case["sev"]] for p in sorted(case["probs"], reverse=True)]
            if got != want or bylabel != want or [str(x) for x in da["sev"].values] != lab_str(case["sev"]):
                return True
            if sp["domain"] or not FINDINGS:
                return False
        return got != scaling_spec(case)
    if chk == "built-rm":
        return bool(built_rm_fails(case, core.run_driver("C12", [built_rm_op(case)])[0]))
    if chk == "scaling-level-sum":
        total, parts = level_sum_values(case)
        return not all(core.close_ff(a, b) for a, b in zip(total, parts))
    if chk == "firm-guard":
        inside = bool(core.run_driver("C12", [firm_bad_op(case, "c12.firm_domain")])[0])
        return firm_bad_outcome(case) != ("ok" if inside else "ValueError")
    if chk == "rm-guard":
        inside = bool(core.run_driver("C12", [rm_bad_op(case, "c12.rm_domain")])[0])
        return rm_bad_outcome(case) != ("ok" if inside else "ValueError")
    if chk == "pc-guard":
        inside = bool(core.run_driver("C12", [{"op": "c12.rm_domain", "args": {
            "fcst": [], "obs": [], "mode": "lower", "probs": [core.fl_str(float(x)) for x in case["probs"]]}}])[0])
        return pc_outcome(case, case["which"]) != ("ok" if inside else "ValueError")
    return True
