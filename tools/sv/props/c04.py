"""C04 — results depend on labelled values only, not on layout, container or scheduler."""
from __future__ import annotations

import copy
import inspect
import itertools

import numpy as np
import xarray as xr

from sv import core
from sv import registry as R
from sv.props import c01

PROPERTY = "C04"
GEN = []
PROPS = ["ScoresVerif/Props/C04.lean", "ScoresVerif/Props/C04Reduce.lean", "ScoresVerif/Props/C04Axis.lean"]
DRIVER_DEPS = ["ScoresVerif.Driver.C01"]
LEVEL = "other"
EXPLANATION = ("Kernel-checked Lean theorems show that, in the model, per-case kernels commute with any permutation of the labelled "
               "cases and the NaN-skipping reductions are permutation-invariant, so aggregates are functions of the multiset of labelled "
               "cases. The implementation is tied to this by an enumerated variant fan-out: each generated labelled case is evaluated "
               "as original, every transposition, independently shuffled coordinates in fcst/obs/weights, dask-chunked (1 / mixed / "
               "whole) under the synchronous and threaded schedulers with a laziness check, Dataset-wrapped, and as pandas Series "
               "where an API exists; every variant must give the value of the original at every label, and deep copies of all inputs "
               "are compared after each call. Scheduler independence, laziness and non-mutation are observed, not proved.")
TRUSTED = ["dask / xarray / pandas runtime behaviour is observed on the enumerated variants only"]
ASSUMPTIONS = ["transposed inputs are materialised in their new order (ndarray.copy(order='C'), which also normalises the strides of size-1 dimensions): a strided view with a size-1 dimension "
               "triggers a bottleneck 1.6.0 + numpy 2.x nanmin/nanmax bug that is not part of nci/scores",
               "FSS is not given dask input (its dask support is documented as 'forbidden' by default and not fully tested)"]
RULE = ("registry function x generated labelled case x variant {transposition, coordinate shuffle, chunking x scheduler, Dataset, pandas}; "
        "distinct = distinct (function, inputs, variant); non-trivial = the original call returns a finite value; "
        "fss-storage: random 0/1 field pairs (t,y,x) x storage {bool, float64/32/16, int64/32/8, uint8; fcst/obs alike or mixed} x "
        "memory {C, Fortran, strided view, read-only} through fss_2d_single_field (identity operator), fss_2d_binary(check_boolean=False) "
        "and fss_2d: equal to the FSS of the definition (exact window sums, oracle only - no Lean model), repeatable, inputs untouched")
MANIFEST = dict(
    level="other",
    text="Layout-invariance is proved for the model (Lean: kernels commute with, and NaN-skipping reductions are invariant under, "
         "any permutation of the labelled cases); the implementation is compared against itself over an enumerated fan-out of "
         "layout / container / scheduler variants with laziness and non-mutation checks. Partial: the runtime clauses (dask "
         "scheduling, laziness, in-place mutation) cannot be carried by an executable model and are observed only.",
    note="Known finding F13 (fss_2d / fss_2d_binary raise on differently ordered coordinates). Library quirk excluded: strided "
         "views with size-1 dims (bottleneck nanmin bug). dask variants are not generated for FSS.",
    technique="Lean 4 permutation-invariance theorems for the model + enumerated differential variant fan-out on the implementation",
    design="6/C04")

LAZY = {"mse", "mae", "rmse", "mse_angular", "additive_bias", "mean_error", "multiplicative_bias", "pbias", "quantile_score",
        "consistent_expectile_score", "consistent_huber_score", "consistent_quantile_score", "tw_squared_error", "tw_absolute_error",
        "tw_quantile_score", "tw_expectile_score", "tw_huber_loss", "quantile_interval_score", "interval_score", "brier_score",
        "crps_for_ensemble", "crps_for_ensemble_components", "crps_for_ensemble_fair", "tw_crps_for_ensemble",
        "tail_tw_crps_for_ensemble", "interval_tw_crps_for_ensemble", "crps_cdf", "brier_score_for_ensemble"}
NO_DASK = {"fss_2d", "fss_2d_binary"}
NO_COORD_SHUFFLE_SPECIFIC = {"crps_cdf", "crps_cdf_brier_decomposition"}   # threshold coords must stay increasing (documented)


def snapshot(arrs, w):
    return {k: (v.copy(deep=True), copy.deepcopy(dict(v.attrs))) for k, v in list(arrs.items()) + ([("__w", w)] if w is not None else [])}


def mutated(snap, arrs, w):
    cur = dict(arrs)
    if w is not None:
        cur["__w"] = w
    for k, (old, attrs) in snap.items():
        new = cur[k]
        if tuple(new.dims) != tuple(old.dims) or dict(new.attrs) != attrs:
            return k
        if hasattr(new.data, "dask"):
            continue
        if not np.array_equal(np.asarray(new.values), np.asarray(old.values), equal_nan=(old.dtype != bool)):
            return k
        for c in old.coords:
            if c not in new.coords or not np.array_equal(np.asarray(new[c].values), np.asarray(old[c].values)):
                return k
    return None


def transpose_variants(rng, arrs, w, limit):
    names = list(arrs) + (["__w"] if w is not None else [])
    out = []
    pool = dict(arrs)
    if w is not None:
        pool["__w"] = w
    for _ in range(limit):
        new = {}
        for k, a in pool.items():
            dims = list(a.dims)
            rng.shuffle(dims)
            t = a.transpose(*dims)
            new[k] = t.copy(data=t.values.copy(order="C"))
        out.append(("transpose", {k: v for k, v in new.items() if k != "__w"}, new.get("__w")))
    return out


ORDERED_DIMS = {"samp", "sx", "sy", "threshold"}   # positional meaning: a sequence, a spatial grid, increasing thresholds


def shuffle_coords(rng, e, arrs, w):
    """store the same labelled values in a different coordinate order, independently per input.  Dimensions whose
    ORDER carries meaning (flip-flop sampling sequence, FSS spatial grid, CDF thresholds) keep their stored order in
    the forecast-like input; the other inputs may store them differently (alignment is by label)."""
    pool = dict(arrs)
    if w is not None:
        pool["__w"] = w
    fcst_like = {arg for arg, _, role in e.inputs if role in ("fcst", "fcst2")}
    new = {}
    for k, a in pool.items():
        b = a
        for d in a.dims:
            if str(d) in ORDERED_DIMS and (k in fcst_like or e.name in NO_COORD_SHUFFLE_SPECIFIC):
                continue
            n = a.sizes[d]
            perm = list(range(n))
            rng.shuffle(perm)
            b = b.isel({d: perm})
        new[k] = b.copy(deep=True)
    return ("coord-order", {k: v for k, v in new.items() if k != "__w"}, new.get("__w"))


def chunk_variants(rng, arrs, w):
    out = []
    for mode in ("one", "whole", "mixed"):
        def ch(a):
            if not a.dims:
                return a
            if mode == "one":
                return a.chunk({d: 1 for d in a.dims})
            if mode == "whole":
                return a.chunk()
            return a.chunk({d: rng.choice([1, 2, -1]) for d in a.dims})
        out.append(("dask-" + mode, {k: ch(v) for k, v in arrs.items()}, None if w is None else ch(w)))
    return out


def accepts_dataset(e):
    try:
        ps = inspect.signature(e.resolve()).parameters
    except (TypeError, ValueError):
        return False
    for arg, _, role in e.inputs:
        ann = str(ps[arg].annotation) if arg in ps else ""
        if not any(t in ann for t in ("XarrayLike", "FlexibleArrayType", "Dataset")):
            return False
    return True


def compare(ctx, e, case, req, base, variant, out, ex, desc, lazy_required=False):
    name = variant
    tags = {"function": e.name, "variant": name}
    if e.name in ("fss_2d", "fss_2d_binary") and name == "coord-order" and ex is not None and isinstance(ex, ValueError):
        tags["defect"] = "F13"
    if ex is not None:
        ctx.fail("variants", "property", e.name, "exception:" + core.exc_class(ex), desc, observed=str(ex)[:200],
                 expected="the value of the original call", tags=tags)
        return
    for var in base:
        if var not in out:
            ctx.fail("variants", "property", e.name, "missing-variable", desc, observed=sorted(out), expected=sorted(base), tags=tags)
            return
        if lazy_required and not hasattr(out[var].data, "dask"):
            ctx.fail("variants", "property", e.name, "not-lazy", desc, observed="computed eagerly", expected="a dask-backed result",
                     tags=tags)
        a, b = base[var], out[var]
        d1, s1, v1 = R.to_labelled(a)
        d2, s2, v2 = R.to_labelled(b)
        if d1 != d2 or s1 != s2 or not all(core.close_ff(x, y) for x, y in zip(v1, v2)):
            ctx.fail("variants", "property", e.name, "value-depends-on-" + name.split("-")[0], desc,
                     observed={"var": var, "dims": d2, "values": v2}, expected={"dims": d1, "values": v1}, tags=tags,
                     theorem="aggregate_layout_invariant")
            return


def fanout(ctx, ncases):
    import dask
    rng = ctx.rng
    for e in R.REGISTRY:
        prev = None       # (case, request, result) of the previous case of this function
        for ci in range(ncases):
            case = R.gen_case(rng, e, with_weights=e.weights and rng.random() < 0.5, nan_p=(0.1 if ci % 2 else 0.0))
            data = sorted(set(case.fcst_dims) | set(case.obs_dims))
            reqs = [{}, {"preserve_dims": "all"}]
            if data:
                reqs.append({"reduce_dims": rng.sample(data, rng.randint(0, len(data)))})
            req = rng.choice(reqs)
            base, ex = c01.safe_call(e, case, req)
            desc = R.describe(case, req)
            desc["function"] = e.name
            if ex is not None:
                ctx.fail("variants", "property", e.name, "exception:" + core.exc_class(ex), desc, observed=str(ex)[:200], expected="a result",
                         tags={"function": e.name, "variant": "original"})
                continue
            # history independence: a call is a function of ITS arguments — after other calls of the same function (other
            # data, other options) the earlier call, repeated on the same objects, returns the same values
            if prev is not None:
                again, ex2 = c01.safe_call(e, prev[0], prev[1])
                ctx.case("variants", {"function": e.name, "variant": "repeat-after-other-calls", "case": core.case_hash(R.describe(prev[0], prev[1]))})
                ctx.tag("variant:repeat-after-other-calls")
                d0 = dict(R.describe(prev[0], prev[1]), function=e.name, variant="repeat-after-other-calls")
                if ex2 is not None:
                    ctx.fail("variants", "property", e.name, "exception:" + core.exc_class(ex2), d0, observed=str(ex2)[:200],
                             expected="the first call's result", tags={"function": e.name, "variant": "repeat-after-other-calls"})
                else:
                    compare(ctx, e, prev[0], prev[1], prev[2], "repeat-after-other-calls", again, None, d0)
            prev = (case, req, base)
            if ncases == 1:
                # quick tier (one case per function): make the "other call" here — another data set, another request —
                # and repeat the first call on the same objects
                other = R.gen_case(rng, e, with_weights=e.weights and rng.random() < 0.5)
                c01.safe_call(e, other, {"preserve_dims": "all"} if req != {"preserve_dims": "all"} else {})
                again, ex2 = c01.safe_call(e, case, req)
                ctx.case("variants", {"function": e.name, "variant": "repeat-after-other-calls", "case": core.case_hash(desc)})
                ctx.tag("variant:repeat-after-other-calls")
                d0 = dict(desc, variant="repeat-after-other-calls")
                if ex2 is not None:
                    ctx.fail("variants", "property", e.name, "exception:" + core.exc_class(ex2), d0, observed=str(ex2)[:200],
                             expected="the first call's result", tags={"function": e.name, "variant": "repeat-after-other-calls"})
                else:
                    compare(ctx, e, case, req, base, "repeat-after-other-calls", again, None, d0)
            variants = transpose_variants(rng, case.arrays, case.weights, ctx.n(2, 4))
            variants.append(shuffle_coords(rng, e, case.arrays, case.weights))
            if e.name not in NO_DASK:
                variants += chunk_variants(rng, case.arrays, case.weights)
            for vname, arrs, w in variants:
                scheds = ["synchronous", "threads"] if vname.startswith("dask") else [None]
                for sched in scheds:
                    snap = snapshot(arrs, w)
                    d = dict(desc, variant=vname, scheduler=sched)
                    ctx.case("variants", {"function": e.name, "variant": vname, "scheduler": sched, "case": core.case_hash(desc)})
                    ctx.tag("variant:" + vname)
                    if sched:
                        with dask.config.set(scheduler=sched):
                            out, ex = c01.safe_call(e, case, req, arrays=arrs, weights=w)
                            lazy = e.name in LAZY
                            if out is not None:
                                lazy_flags = {k: hasattr(v.data, "dask") for k, v in out.items()}
                                try:
                                    out = {k: v.compute() for k, v in out.items()}
                                except Exception as ex2:      # failure at compute time
                                    out, ex = None, ex2
                                if out is not None and lazy and not all(lazy_flags.values()):
                                    ctx.fail("variants", "property", e.name, "not-lazy", d, observed=lazy_flags, expected="dask-backed result",
                                             tags={"function": e.name, "variant": vname})
                    else:
                        out, ex = c01.safe_call(e, case, req, arrays=arrs, weights=w)
                    compare(ctx, e, case, req, base, vname, out, ex, d)
                    who = mutated(snap, arrs, w)
                    if who is not None:
                        ctx.fail("variants", "property", e.name, "input-mutated", d, observed=who, expected="inputs unchanged",
                                 tags={"function": e.name, "variant": vname})
            # the original call must not mutate either
            snap = snapshot(case.arrays, case.weights)
            c01.safe_call(e, case, req)
            who = mutated(snap, case.arrays, case.weights)
            if who is not None:
                ctx.fail("variants", "property", e.name, "input-mutated", desc, observed=who, expected="inputs unchanged",
                         tags={"function": e.name, "variant": "original"})
            # Dataset container
            if accepts_dataset(e) and not e.specific:
                # the same fields as variable "v1" of a Dataset whose SECOND variable is a different field with its own
                # missing values: the value attached to v1 must not depend on its neighbour variable
                def _other(v):
                    if v.dtype.kind != "f" or v.size < 2:
                        return v * 1
                    vals = np.array(v.values, dtype=float)
                    flat = np.roll(vals.reshape(-1), 1)        # the same value set (stays in the input's domain), other positions
                    flat[rng.randrange(flat.size)] = np.nan
                    return v.copy(data=flat.reshape(vals.shape))
                ds_arrs = {k: xr.Dataset({"v1": v, "v2": _other(v)}) for k, v in case.arrays.items()}
                out, ex = None, None
                try:
                    import warnings
                    with warnings.catch_warnings(), np.errstate(all="ignore"):
                        warnings.simplefilter("ignore")
                        res = e.call(case, req, arrays=ds_arrs)
                    if isinstance(res, xr.Dataset) and "v1" in res:
                        out = {"value": res["v1"]} if "value" in base else None
                except Exception as exx:
                    ex = exx
                ctx.case("variants", {"function": e.name, "variant": "dataset", "case": core.case_hash(desc)})
                ctx.tag("variant:dataset")
                if ex is not None:
                    ctx.fail("variants", "property", e.name, "exception:" + core.exc_class(ex), dict(desc, variant="dataset"),
                             observed=str(ex)[:200], expected="a Dataset result", tags={"function": e.name, "variant": "dataset"})
                elif out is not None:
                    compare(ctx, e, case, req, base, "dataset", out, None, dict(desc, variant="dataset"))


def pandas_variants(ctx, n):
    import pandas as pd
    import scores.pandas.continuous as pc
    from scores.continuous import mae, mse, rmse
    rng = ctx.rng
    for _ in range(n):
        k = rng.randint(1, 6)
        f = [core.dyadic(rng) for _ in range(k)]
        o = [rng.choice([x, core.dyadic(rng)]) for x in f]
        if rng.random() < 0.3:
            o[rng.randrange(k)] = float("nan")
        ang = rng.random() < 0.3
        if ang:
            f = [float(rng.choice([0, 90, 350, 370, -20, 180])) for _ in range(k)]
            o = [float(rng.choice([0, 90, 350, 370, -20, 180])) for _ in range(k)]
        fx, ox = xr.DataArray(f, dims=["k"]), xr.DataArray(o, dims=["k"])
        fs, os_ = pd.Series(f), pd.Series(o)
        for name, xf, pf in (("mse", mse, pc.mse), ("mae", mae, pc.mae), ("rmse", rmse, pc.rmse)):
            ctx.case("pandas", {"function": name, "fcst": f, "obs": o, "is_angular": ang})
            ctx.tag("variant:pandas")
            with np.errstate(all="ignore"):
                ref = float(xf(fx, ox, is_angular=ang))
                try:
                    got1 = float(pf(fs, os_, is_angular=ang))
                    got2 = float(xf(fs, os_, is_angular=ang))
                except Exception as ex:
                    ctx.fail("pandas", "property", "pandas." + name, "exception:" + core.exc_class(ex), {"fcst": f, "obs": o, "is_angular": ang},
                             observed=str(ex)[:200], expected=ref, tags={"function": name, "variant": "pandas"})
                    continue
            for got, which in ((got1, "scores.pandas"), (got2, "scores.continuous on Series")):
                if not core.close_ff(got, ref):
                    ctx.fail("pandas", "property", "pandas." + name, "value-depends-on-container", {"fcst": f, "obs": o, "is_angular": ang},
                             observed={which: got}, expected=ref, tags={"function": name, "variant": "pandas"})


def extras(ctx, n):
    """functions outside the reduce/preserve registry that the property anchors: isotonic_fit (xarray inputs whose
    dims are stored in different orders), cdf_envelope (threshold dim in any position), flip_flop_index (extra dims)"""
    from scores.processing import isotonic_fit
    from scores.processing.cdf import cdf_envelope
    from scores.continuous import flip_flop_index
    rng = ctx.rng

    def arr(dims, sizes, pool):
        shape = [sizes[d] for d in dims]
        data = np.array([rng.choice(pool) for _ in range(int(np.prod(shape)))], dtype=float).reshape(shape)
        return xr.DataArray(data, dims=list(dims), coords={d: list(range(sizes[d])) for d in dims})

    def relay(a):
        dims = list(a.dims)
        rng.shuffle(dims)
        t = a.transpose(*dims)
        t = t.copy(data=t.values.copy(order="C"))
        for d in dims:
            if rng.random() < 0.5 and d != "threshold" and d != "samp":
                perm = list(range(t.sizes[d]))
                rng.shuffle(perm)
                t = t.isel({d: perm})
        return t.copy(deep=True)

    for _ in range(n):
        m = rng.choice([2, 3])
        sizes = {"a": m, "b": m, "threshold": 4, "samp": 4}     # equal sizes: a positional mix-up passes every shape check
        # --- isotonic_fit
        f = arr(["a", "b"], sizes, [0.0, 1.0, 2.0, 3.0, 4.0, 5.0, 6.0, 7.0])
        o = arr(["a", "b"], sizes, [0.0, 0.5, 1.0, 2.0, 4.0, float("nan")])
        w = arr(["a", "b"], sizes, [0.5, 1.0, 2.0, 4.0])
        desc = {"function": "isotonic_fit", "fcst": core.canon(f.values.tolist()), "obs": core.canon(o.values.tolist()),
                "weight": core.canon(w.values.tolist())}
        ctx.case("extras", desc)
        ctx.tag("variant:isotonic-relayout")
        try:
            with np.errstate(all="ignore"):
                base = isotonic_fit(f, o, weight=w)
                var = isotonic_fit(relay(f), relay(o), weight=relay(w))
            for key in ("fcst_sorted", "fcst_counts", "regression_values"):
                x, y = np.asarray(base[key], dtype=float), np.asarray(var[key], dtype=float)
                if x.shape != y.shape or not all(core.close_ff(p, q) for p, q in zip(x, y)):
                    ctx.fail("extras", "property", "isotonic_fit", "value-depends-on-layout", desc, observed={key: y.tolist()},
                             expected={key: x.tolist()}, tags={"function": "isotonic_fit", "variant": "relayout"})
                    break
        except Exception as ex:
            ctx.fail("extras", "property", "isotonic_fit", "exception:" + core.exc_class(ex), desc, observed=str(ex)[:200],
                     expected="a fit", tags={"function": "isotonic_fit", "variant": "relayout"})
        # --- cdf_envelope: threshold dim in any position
        c = arr(["a", "threshold", "b"], sizes, [0.0, 0.25, 0.5, 0.75, 1.0, float("nan")])
        desc = {"function": "cdf_envelope", "cdf": core.canon(c.values.tolist()), "dims": list(c.dims)}
        ctx.case("extras", desc)
        ctx.tag("variant:cdf-envelope-relayout")
        try:
            base = cdf_envelope(c, "threshold")
            c2 = relay(c)
            var = cdf_envelope(c2, "threshold")
            d1, s1, v1 = R.to_labelled(base)
            d2, s2, v2 = R.to_labelled(var)
            if d1 != d2 or s1 != s2 or not all(core.close_ff(p, q) for p, q in zip(v1, v2)):
                ctx.fail("extras", "property", "cdf_envelope", "value-depends-on-layout", dict(desc, variant_dims=list(c2.dims)),
                         observed=v2, expected=v1, tags={"function": "cdf_envelope", "variant": "relayout"})
        except Exception as ex:
            ctx.fail("extras", "property", "cdf_envelope", "exception:" + core.exc_class(ex), desc, observed=str(ex)[:200],
                     expected="envelopes", tags={"function": "cdf_envelope", "variant": "relayout"})
        # --- flip_flop_index with extra dims
        x = arr(["a", "samp", "b"], sizes, [0.0, 1.0, 2.0, 5.0, -3.0])
        desc = {"function": "flip_flop_index", "data": core.canon(x.values.tolist()), "dims": list(x.dims)}
        ctx.case("extras", desc)
        ctx.tag("variant:flip-flop-relayout")
        try:
            base = flip_flop_index(x, "samp")
            var = flip_flop_index(relay(x), "samp")
            d1, s1, v1 = R.to_labelled(base)
            d2, s2, v2 = R.to_labelled(var)
            if d1 != d2 or s1 != s2 or not all(core.close_ff(p, q) for p, q in zip(v1, v2)):
                ctx.fail("extras", "property", "flip_flop_index", "value-depends-on-layout", desc, observed=v2, expected=v1,
                         tags={"function": "flip_flop_index", "variant": "relayout"})
        except Exception as ex:
            ctx.fail("extras", "property", "flip_flop_index", "exception:" + core.exc_class(ex), desc, observed=str(ex)[:200],
                     expected="an index", tags={"function": "flip_flop_index", "variant": "relayout"})


        # --- directional data: encompassing_sector_size called directly with the preserved dims named in ANY order, on any
        #     storage order; angular flip_flop_index under relayout.  Values are compared by label.
        from scores.continuous.flip_flop_impl import encompassing_sector_size
        import itertools as _it
        ang = arr(["a", "samp", "b"], sizes, [0.0, 10.0, 350.0, 90.0, 180.0, 270.0, 45.0, 200.0])
        desc = {"function": "encompassing_sector_size", "data": core.canon(ang.values.tolist()), "dims": list(ang.dims)}
        try:
            ref = encompassing_sector_size(ang, [d for d in ang.dims if d != "samp"])
            d1, s1, v1 = R.to_labelled(ref)
            for src in (ang, relay(ang)):
                for order in _it.permutations(["a", "b"]):
                    ctx.case("extras", dict(desc, stored=list(src.dims), dims_arg=list(order)))
                    ctx.tag("variant:sector-dims-order")
                    got = encompassing_sector_size(src, [R.fresh(d) for d in order])
                    d2, s2, v2 = R.to_labelled(got)
                    if d1 != d2 or s1 != s2 or not all(core.close_ff(p, q) for p, q in zip(v1, v2)):
                        ctx.fail("extras", "property", "encompassing_sector_size", "value-depends-on-layout",
                                 dict(desc, stored=list(src.dims), dims_arg=list(order)), observed=v2, expected=v1,
                                 tags={"function": "encompassing_sector_size", "variant": "dims-order"})
            base = flip_flop_index(ang, "samp", is_angular=True)
            var = flip_flop_index(relay(ang), "samp", is_angular=True)
            d1, s1, v1 = R.to_labelled(base)
            d2, s2, v2 = R.to_labelled(var)
            ctx.case("extras", dict(desc, function="flip_flop_index(is_angular)"))
            if d1 != d2 or s1 != s2 or not all(core.close_ff(p, q) for p, q in zip(v1, v2)):
                ctx.fail("extras", "property", "flip_flop_index", "value-depends-on-layout", dict(desc, is_angular=True), observed=v2, expected=v1,
                         tags={"function": "flip_flop_index", "variant": "relayout-angular"})
        except Exception as ex:
            ctx.fail("extras", "property", "encompassing_sector_size", "exception:" + core.exc_class(ex), desc, observed=str(ex)[:200],
                     expected="sector sizes", tags={"function": "encompassing_sector_size", "variant": "dims-order"})


        # --- diebold_mariano: several series per call, the series dimension stored first or second
        from scores.stats.statistical_tests import diebold_mariano
        k, nT = rng.choice([2, 3]), rng.choice([6, 7, 9])
        rows = np.array([[rng.randint(-12, 12) / 4 for _ in range(nT)] for _ in range(k)], dtype=float)
        hs = [rng.randint(1, 3) for _ in range(k)]
        desc = {"function": "diebold_mariano", "rows": core.canon(rows.tolist()), "h": hs}
        try:
            res = []
            for order in (("series", "time"), ("time", "series")):
                da = xr.DataArray(rows if order[0] == "series" else rows.T.copy(), dims=[R.fresh(d) for d in order],
                                  coords={"series": list(range(k)), "time": list(range(nT)), "h_": ("series", hs)})
                with np.errstate(all="ignore"):
                    r = diebold_mariano(da, R.fresh("series"), R.fresh("h_"), method="HLN")
                res.append({v: [float(x) for x in np.asarray(r[v].sel(series=list(range(k))).values).ravel()] for v in r.data_vars})
                ctx.case("extras", dict(desc, stored=list(order)))
                ctx.tag("variant:dm-relayout")
            for v in res[0]:
                if not all(core.close_ff(a, b) for a, b in zip(res[0][v], res[1][v])):
                    ctx.fail("extras", "property", "diebold_mariano", "value-depends-on-layout", dict(desc, variable=v), observed=res[1][v],
                             expected=res[0][v], tags={"function": "diebold_mariano", "variant": "relayout"})
                    break
        except Exception as ex:
            ctx.fail("extras", "property", "diebold_mariano", "exception:" + core.exc_class(ex), desc, observed=str(ex)[:200],
                     expected="a Dataset", tags={"function": "diebold_mariano", "variant": "relayout"})


# ----------------------------------------------------------------------------- binary fields: storage type / memory layout
FSS_DTYPES = ["bool", "float64", "float32", "float16", "int64", "int32", "int8", "uint8"]
FSS_LAYOUTS = ["C", "F", "readonly", "strided"]


def _fss_window_sums(field, win, zero_padding):
    """window populations of one 2-D 0/1 field (nested lists), straight from the definition; with zero padding the
    windows are those of the implementation's documented scheme (window clipped at the border, ny+1 x nx+1 positions)"""
    ny, nx = len(field), len(field[0])
    h, w = win
    out = []
    if zero_padding:
        hh, hw = h // 2, w // 2
        rh, rw = h - hh, w - hw
        for i in range(ny + 1):
            r0, r1 = min(max(i - hh, 0), ny), min(max(i + rh, 1), ny)
            for j in range(nx + 1):
                c0, c1 = min(max(j - hw, 0), nx), min(max(j + rw, 1), nx)
                out.append(sum(field[r][c] for r in range(r0, r1) for c in range(c0, c1)))
    else:
        for i in range(ny - h + 1):
            for j in range(nx - w + 1):
                out.append(sum(field[r][c] for r in range(i, i + h) for c in range(j, j + w)))
    return out


def _fss_reference(fs, os_, win, zero_padding):
    """FSS of a list of 2-D field pairs (aggregated over the list the way the library documents: the three power sums
    are averaged per field and combined once), in exact integer arithmetic up to the final quotient"""
    from fractions import Fraction
    pf = po = pd_ = Fraction(0)
    for f, o in zip(fs, os_):
        wf, wo = _fss_window_sums(f, win, zero_padding), _fss_window_sums(o, win, zero_padding)
        n = len(wf)
        pf += Fraction(sum(a * a for a in wf), n)
        po += Fraction(sum(b * b for b in wo), n)
        pd_ += Fraction(sum((a - b) ** 2 for a, b in zip(wf, wo)), n)
    if pf + po <= 0:
        return 0.0
    return float(max(min(1 - pd_ / (pf + po), 1), 0))


def _fss_store(vals, dtype, layout):
    """the same 0/1 values as an ndarray of the given storage type and memory layout"""
    a = np.array(vals, dtype=np.dtype(dtype))
    if layout == "F":
        a = np.asfortranarray(a)
    elif layout == "strided":
        big = np.zeros(tuple(2 * s for s in a.shape), dtype=a.dtype)
        view = big[tuple(slice(None, None, 2) for _ in a.shape)]
        view[...] = a
        a = view
    elif layout == "readonly":
        a = a.copy()
        a.setflags(write=False)
    return a


def _fss_storage_case(ctx, case):
    """one labelled pair of binary fields (dims t, y, x), evaluated in every listed storage: the FSS is a function of the
    0/1 VALUES — not of the dtype that stores them, not of the memory layout, not of how often the call was made — and
    no call touches the arrays it was given"""
    from scores.spatial import fss_2d, fss_2d_binary, fss_2d_single_field
    from scores.utils import left_identity_operator
    f, o = case["fcst"], case["obs"]
    win, zp = tuple(case["window"]), bool(case["zero_padding"])
    nt, ny, nx = len(f), len(f[0]), len(f[0][0])
    coords = {"t": list(range(nt)), "y": list(range(ny)), "x": list(range(nx))}
    ref_t = [_fss_reference([f[k]], [o[k]], win, zp) for k in range(nt)]
    ref_all = _fss_reference(f, o, win, zp)

    def fail(site, sig, stor, observed, expected):
        ctx.fail("fss-storage", "property", site, sig, dict(case, storage=stor), observed=observed, expected=expected,
                 tags={"function": site, "variant": "storage", "storage": "/".join(stor[:2])}, theorem="aggregate_layout_invariant")

    for stor in case["storages"]:
        fd, od, layout = stor
        ctx.case("fss-storage", {"case": core.case_hash(case), "storage": stor})
        ctx.tag("variant:fss-storage:" + fd)
        ctx.tag("variant:fss-layout:" + layout)
        # ---- numpy entry point, one field pair at a time, identity threshold operator
        for k in range(nt):
            fa, oa = _fss_store(f[k], fd, layout), _fss_store(o[k], od, layout)
            f0, o0 = np.array(fa, copy=True), np.array(oa, copy=True)
            try:
                with np.errstate(all="ignore"):
                    r1 = float(fss_2d_single_field(fa, oa, event_threshold=-999.0, window_size=win, zero_padding=zp,
                                                   threshold_operator=left_identity_operator))
                    r2 = float(fss_2d_single_field(fa, oa, event_threshold=-999.0, window_size=win, zero_padding=zp,
                                                   threshold_operator=left_identity_operator))
            except Exception as ex:
                fail("fss_2d_single_field", "exception:" + core.exc_class(ex), stor + [k], str(ex)[:200], ref_t[k])
                continue
            if not (np.array_equal(fa, f0) and np.array_equal(oa, o0) and fa.dtype == f0.dtype and oa.dtype == o0.dtype):
                fail("fss_2d_single_field", "input-mutated", stor + [k],
                     {"fcst": np.asarray(fa, dtype=float).tolist(), "obs": np.asarray(oa, dtype=float).tolist()}, "inputs unchanged")
            if not core.close_ff(r1, r2):
                fail("fss_2d_single_field", "value-depends-on-repeat", stor + [k], {"first": r1, "second": r2}, ref_t[k])
            elif not core.close_ff(r1, ref_t[k]):
                fail("fss_2d_single_field", "value-depends-on-storage", stor + [k], r1, ref_t[k])
        # ---- labelled entry points: per field (preserve t) and aggregated over t
        for req, ref in (({"preserve_dims": [R.fresh("t")]}, ref_t), ({}, [ref_all])):
            fa = xr.DataArray(_fss_store(f, fd, layout), dims=["t", "y", "x"], coords=coords)
            oa = xr.DataArray(_fss_store(o, od, layout), dims=["t", "y", "x"], coords=coords)
            f0, o0 = fa.copy(deep=True), oa.copy(deep=True)
            calls = [("fss_2d_binary", lambda: fss_2d_binary(fa, oa, window_size=win, spatial_dims=(R.fresh("y"), R.fresh("x")),
                                                             zero_padding=zp, check_boolean=(fd == "bool" and od == "bool"), **req))]
            if fd != "bool" and od != "bool":
                calls.append(("fss_2d", lambda: fss_2d(fa, oa, event_threshold=0.5, window_size=win, zero_padding=zp,
                                                       spatial_dims=(R.fresh("y"), R.fresh("x")), **req)))
            for site, fn in calls:
                try:
                    import warnings
                    with warnings.catch_warnings(), np.errstate(all="ignore"):
                        warnings.simplefilter("ignore")
                        r1 = fn()
                        r2 = fn()
                    if "t" in r1.dims:
                        r1, r2 = r1.sel(t=coords["t"]), r2.sel(t=coords["t"])
                    v1 = [float(x) for x in np.asarray(r1.values, dtype=float).ravel()]
                    v2 = [float(x) for x in np.asarray(r2.values, dtype=float).ravel()]
                except Exception as ex:
                    fail(site, "exception:" + core.exc_class(ex), stor + [sorted(req)], str(ex)[:200], ref)
                    continue
                if not (np.array_equal(fa.values, f0.values) and np.array_equal(oa.values, o0.values)
                        and fa.dtype == f0.dtype and oa.dtype == o0.dtype):
                    fail(site, "input-mutated", stor + [sorted(req)], "input DataArray values changed", "inputs unchanged")
                if len(v1) != len(ref) or len(v2) != len(ref):
                    fail(site, "value-depends-on-storage", stor + [sorted(req)], v1, ref)
                elif not all(core.close_ff(a, b) for a, b in zip(v1, v2)):
                    fail(site, "value-depends-on-repeat", stor + [sorted(req)], {"first": v1, "second": v2}, ref)
                elif not all(core.close_ff(a, b) for a, b in zip(v1, ref)):
                    fail(site, "value-depends-on-storage", stor + [sorted(req)], v1, ref)


def fss_storage(ctx, n):
    """binary event fields in every storage a caller may hold them in: bool, 0/1 floats of three widths, 0/1 integers;
    C / Fortran / strided-view / read-only memory; fcst and obs stored alike or differently"""
    rng = ctx.rng
    for it in range(n):
        nt, ny, nx = rng.choice([1, 2, 3]), rng.randint(1, 5), rng.randint(1, 5)
        if rng.random() < 0.3:
            nx = ny                   # square fields: a transposed table passes every shape check
        win = [rng.randint(1, ny), rng.randint(1, nx)]
        p = rng.choice([0.0, 0.2, 0.5, 0.8, 1.0])
        f = [[[int(rng.random() < p) for _ in range(nx)] for _ in range(ny)] for _ in range(nt)]
        o = [[[(f[k][i][j] if rng.random() < 0.5 else int(rng.random() < 0.5)) for j in range(nx)] for i in range(ny)] for k in range(nt)]
        if rng.random() < 0.15:
            o = copy.deepcopy(f)      # perfect forecast
        # every storage type is visited in rotation (alike for fcst and obs), plus one mixed pair
        d = FSS_DTYPES[it % len(FSS_DTYPES)]
        storages = [["bool", "bool", "C"], [d, d, FSS_LAYOUTS[(it // len(FSS_DTYPES)) % len(FSS_LAYOUTS)]],
                    ["float64", "float64", rng.choice(FSS_LAYOUTS)],
                    [rng.choice(FSS_DTYPES), rng.choice(FSS_DTYPES), rng.choice(FSS_LAYOUTS)]]
        case = {"function": "fss-storage", "fcst": f, "obs": o, "window": win, "zero_padding": rng.random() < 0.5, "storages": storages}
        _fss_storage_case(ctx, case)


def correspondence(ctx):
    """layout tie of the model: Lean scoreEval on a pointwise array handed over in a PERMUTED dimension order
    equals the implementation's aggregate (Arr.get is by name, not by position)"""
    rng = ctx.rng
    pend = []
    for e in R.REGISTRY:
        if e.kind != "mean":
            continue
        for _ in range(ctx.n(1, 4)):
            case = R.gen_case(rng, e, with_weights=False)
            base, ex = c01.safe_call(e, case, {"preserve_dims": "all"})
            if ex is not None:
                continue
            data = sorted(set(case.fcst_dims) | set(case.obs_dims))
            Rl = rng.sample(data, rng.randint(0, len(data)))
            out, ex = c01.safe_call(e, case, {"reduce_dims": [R.fresh(d) for d in Rl]})
            if ex is not None:
                continue
            for var, da in out.items():
                if var in base:
                    p = base[var]
                    dims = [str(d) for d in p.dims]
                    for d in dims:
                        if d in p.coords:
                            p = p.sortby(d)        # labels in canonical order; only the dimension ORDER is permuted
                    rng.shuffle(dims)
                    p = p.transpose(*dims)
                    pj = {"dims": dims, "shape": [int(s) for s in p.shape],
                          "data": [core.fl_str(x) for x in np.asarray(p.values, dtype=float).ravel().tolist()]}
                    pend.append((e, case, var, da, pj, Rl))
    res = core.run_driver("C01", [{"op": "c01.scoreEval", "args": {"p": pj, "R": Rl}} for (_, _, _, _, pj, Rl) in pend])
    for (e, case, var, da, pj, Rl), m in zip(pend, res):
        ctx.case("model-layout", {"function": e.name, "dims": pj["dims"], "R": Rl, "data": pj["data"]})
        dims, shape, vals = R.to_labelled(da)
        md = m["dims"]
        order = sorted(range(len(md)), key=lambda i: md[i])
        marr = np.array([core.parse_fl(x) for x in m["data"]], dtype=object).reshape(m["shape"] or ())
        if md:
            marr = np.transpose(marr, order)
        mvals = list(np.ravel(marr)) if md else [marr.item()]
        if not (sorted(md) == dims and len(mvals) == len(vals) and all(core.close(x, y) for x, y in zip(vals, mvals))):
            ctx.fail("model-layout", "correspondence", e.name, "model-layout", R.describe(case), observed={"dims": dims, "values": vals},
                     expected={"dims": sorted(md), "values": [core.fl_str(x) for x in mvals]}, tags={"function": e.name})


def oracle(ctx, boost):
    fanout(ctx, ctx.n(1, 6) * (3 if boost else 1))
    pandas_variants(ctx, ctx.n(40, 400))
    extras(ctx, ctx.n(15, 150) * (3 if boost else 1))
    fss_storage(ctx, ctx.n(48, 400) * (3 if boost else 1))


def replay(ctx, payload):
    c = core.Ctx("C04", "quick", payload.get("seed", 0))
    site = payload.get("site", "")
    if payload.get("batch") == "fss-storage":
        case = dict(payload["case"])
        stor = case.pop("storage", None)
        if stor:
            case["storages"] = [stor[:3]]
        _fss_storage_case(c, case)
        return any(f["site"] == site and f["signature"] == payload.get("signature") for f in c.failures)
    if site in ("isotonic_fit", "cdf_envelope", "flip_flop_index", "encompassing_sector_size", "diebold_mariano"):
        extras(c, 60)
        return any(f["site"] == site for f in c.failures)
    if site.startswith("pandas."):
        pandas_variants(c, 200)
        return any(f["site"] == site for f in c.failures)
    old = R.REGISTRY[:]
    try:
        R.REGISTRY[:] = [e for e in old if e.name == site] or old
        fanout(c, 12)
    finally:
        R.REGISTRY[:] = old
    return any(f["signature"] == payload.get("signature") for f in c.failures)
