"""C08 — discretisation and contingency counts classify every valid pair exactly once."""
from __future__ import annotations

import itertools
import math
import operator

import numpy as np
import xarray as xr

from sv import core

PROPERTY = "C08"
GEN = ["Discretise", "Contingency"]
PROPS = ["ScoresVerif/Props/C08.lean"]
DRIVER_DEPS = ["ScoresVerif.Driver.C08Spec", "ScoresVerif.Driver.C08"]
LEVEL = "proof"
TRUSTED = ["SV.PyOp / SV.PyMode (Model/Discretise.lean) as the meaning of Python's operator functions, `in`, `is` on the mode argument",
           "Model/C08.lean: list-level model of .sum(dim)/.mean(dim) (skipna) and of the threshold loop of binary_discretise",
           "xarray broadcasting / reductions (compared, not modelled beyond flattening)"]
ASSUMPTIONS = ["data, thresholds and tolerances are dyadic (k/4) so every comparison and threshold±tolerance is exact in float64",
               "the classification is a function of the VALUES, not of their storage: data stored as int64 / int32 / int8 / uint8 / bool / "
               "float32 (exactly representable values; thresholds mostly NOT representable in that dtype: k+1/2, -1/2, 0.1 for float32) "
               "are compared with the exact-rational model / spec value of the same numbers; float32 neighbours of a non-dyadic threshold "
               "are used only where no comparison is decided by float64 rounding (guard: rounding-sensitive-skipped)",
               "data AND comparison DataArray both stored in one narrow integer / bool dtype: out-of-range intermediates inside "
               "comparative_discretise are the candidate defect N-C08-2 (notes/C08.md; tagged, generated in their own batch); "
               "float32 forecasts against a Python-float event threshold stay dyadic (numpy weak-scalar promotion of the caller's own "
               "op_fn, N-C08-3)",
               "+inf / -inf are valid, comparable values: contingency counts (theorems hold for every Fl) and the order relations / unequal "
               "values of discretisation (theorem disc_eq_specX, Spec.discX) cover them; only '==' / '!=' between two EQUAL infinities "
               "is outside the property's domain (notes/C08.md N-C08-1; model and implementation are still compared on it)",
               "computed thresholds (k * 0.1, k / 3, np.linspace, magnitudes below 1e-12) with data on / one ulp around / on the decimal "
               "rounding of the threshold are generated with tolerance None / 0 only: no float64 operation rounds there, the exact-rational "
               "Spec value of the same doubles is the required result (Lean Spec in the oracle, translated model in the correspondence)",
               "counts of ANY size: the quick tier checks that every observable stage of the count pipeline (maps tp/tn/fp/fn, counts, "
               "table) accumulates in float64 / a 64-bit integer (exact to 2^53 pairs) and, when a narrower stage is seen, shows it on a "
               "real 2 x (capacity/2 + 2) field; the 2^24 + 4 pair field itself (~1 GB, ~6 s on the unchanged tree) runs unconditionally "
               "only in the thorough tier (oracle only; the Lean theorems already hold for lists of any length)",
               "Dataset inputs and dask arrays are not generated"]
MANIFEST = dict(
    level="proof",
    text="Kernel-checked Lean theorems about definitions regenerated from the source on every run (mode tables and the if/elif "
         "relation chain of comparative_discretise incl. abs_tolerance sanitising; event expressions and threshold/operator "
         "fallbacks of ThresholdEventOperator; the four boolean maps of BinaryContingencyManager): relation table for all 6 "
         "modes x every tolerance >= 0 on finite data, string spelling = operator spelling for all values, NaN -> NaN, "
         "complementary relations sum to 1, guards; events = op(x, thr) for EVERY supplied threshold (0, negative) and each "
         "operator; each count = direct count, tp+fp+fn+tn = total = #pairs valid in both, maps disjoint and covering, counts "
         "additive under concatenation (kept counts sum to reduced counts) for lists of any length; proportion = share. "
         "Tied to the code by the translator, a differential correspondence and an independent oracle (Lean Spec + direct "
         "Python counting + relations between implementation runs).",
    note="Trusted: Lean kernel; propext/Classical.choice/Quot.sound; py2lean + tools/gen/Discretise.py; SV.Fl (IEEE minus rounding, "
         "overflow, signed zero); SV.PyOp/PyMode as the meaning of operator functions and of `in`/`is` on the mode; the "
         "list-level hand model (Model/C08.lean) of .sum/.mean(skipna), of the threshold loop, monotonicity guard and total = "
         "tp+tn+fp+fn, which is compared with the implementation, not translated. Not modelled: Dataset/dask inputs, attrs, "
         "autosqueeze bookkeeping (shape only compared), gather_dimensions (C01); '=='/'!=' between two equal infinities is compared "
         "but outside the theorems (|inf-inf| is NaN, so '==' of equal infinities is 0); every other use of +inf/-inf (data, "
         "thresholds, event thresholds with order relations) is inside.",
    technique="Lean 4 theorems over translator-regenerated definitions + differential correspondence + property oracle "
              "(when the source leaves the translatable subset the generator substitutes the hand-written fallback model "
              "tools/gen/_fallback_*.lean for that definition, records it as inapplicable, and the correspondence carries it)",
    design="6/C08")
RULE = ("cases drawn from a dyadic pool with 50 % of data values placed on / within / just outside tolerance of a threshold, "
        "NaN in every slot, +inf / -inf among data, discretisation thresholds, forecasts, observations (half of the table cases) and "
        "event thresholds (order relations only), all 12 mode spellings, thresholds 0 and negative for the event operator; the same functions "
        "and both contingency-manager routes on data stored as int64 / int32 / int8 / uint8 / bool / float32 (values exactly representable, "
        "incl. the dtype's extremes and the float32 neighbours of 0.1 / 0.3 / 0.7) with thresholds not representable in the dtype and "
        "every tolerance, plus a 6 dtypes x 12 spellings x 2 tolerances grid; computed non-dyadic thresholds (k*0.1, k/3, linspace, < 1e-12) with "
        "data exactly on / one ulp around / on the 12-decimal rounding of a threshold, tolerance none / 0, all 12 spellings, both functions and "
        "the proportions; accumulator dtype of every count stage (+ a 2^24 + 4 pair constant field in the thorough tier); distinct = distinct "
        "canonical input; non-trivial = at least one non-NaN output and not in the malformed stream")

STR2OP = {">=": "ge", ">": "gt", "<=": "le", "<": "lt", "==": "eq", "!=": "ne"}
OP2STR = {v: k for k, v in STR2OP.items()}
COMPL = {"ge": "lt", "lt": "ge", "gt": "le", "le": "gt", "eq": "ne", "ne": "eq"}
NAN = float("nan")


# ----------------------------------------------------------------------------- helpers
def py_mode(m):
    if m["k"] == "str":
        return m["v"]
    if m["k"] == "op":
        return getattr(operator, m["v"])
    return None


def rel_of(m):
    """relation name of a valid mode descriptor, else None"""
    if m["k"] == "str":
        return STR2OP.get(m["v"])
    if m["k"] == "op":
        return m["v"] if m["v"] in COMPL else None
    return None


def fls(xs):
    return [core.fl_str(x) for x in xs]


def fresh(s):
    return "".join(list(s))


def as_num(x):
    """python int for integral values half of the time is decided by the caller; here: exact float"""
    return float(x)


def run_disc(fn_name, data, comp, mode, tol, scalar_comp=False, dtype=None, cdtype=None):
    """call the real discretisation; returns ('ok', matrix[data][comp]) | ('err', class).
    dtype: storage dtype of `data` (default float64); cdtype: storage dtype of a DataArray comparison (default float64)"""
    from scores.processing import binary_discretise, comparative_discretise
    d = xr.DataArray(np.array(data, dtype=dtype or float), dims=[fresh("x")])
    kw = {} if tol == "omit" else {"abs_tolerance": tol}
    try:
        with np.errstate(all="ignore"):
            if fn_name == "comparative":
                c = comp[0] if scalar_comp else xr.DataArray(np.array(comp, dtype=cdtype or float), dims=[fresh("c")])
                before = (np.array(d.values, copy=True), None if scalar_comp else np.array(c.values, copy=True))
                out = comparative_discretise(d, c, py_mode(mode), **kw)
                # the caller's arrays are inputs, not scratch space: a second call with the same objects must see the same values
                same_in = np.array_equal(before[0], d.values, equal_nan=True) and \
                    (scalar_comp or np.array_equal(before[1], c.values, equal_nan=True))
                if not same_in:
                    return ("err", "input-mutated: the data / comparison array handed to comparative_discretise was modified in place")
                if scalar_comp:
                    out = out.expand_dims("c", axis=-1)
                vals = out.transpose("x", "c").values
            else:
                th = comp[0] if scalar_comp else list(comp)
                out = binary_discretise(d, th, py_mode(mode), **kw)
                if "threshold" not in out.dims:
                    if not (scalar_comp or len(comp) == 1):
                        return ("err", "shape: threshold dim missing")
                    out = out.expand_dims("threshold", axis=-1)
                elif scalar_comp:
                    return ("err", "shape: threshold dim not squeezed for a scalar threshold")
                vals = out.transpose("x", "threshold").values
        return ("ok", np.asarray(vals, dtype=float).tolist())
    except Exception as ex:  # noqa: BLE001
        return ("err", core.exc_class(ex))


def same_matrix(impl, model, allow_none=False):
    """impl: nested floats; model: nested protocol strings (None = outside the spec's domain)"""
    if len(impl) != len(model):
        return False
    for ri, rm in zip(impl, model):
        if len(ri) != len(rm):
            return False
        for a, b in zip(ri, rm):
            if b is None:
                if allow_none:
                    continue
                return False
            if not core.close(a, b, rtol=0, atol=0):
                return False
    return True


def disc_result_matches(res, model):
    if "err" in model:
        return res[0] == "err" and res[1] == model["err"]
    return res[0] == "ok" and same_matrix(res[1], model["ok"])


# ----------------------------------------------------------------------------- generators
def gen_disc_case(rng, malformed_ok=True, finite_only=False, infs=False):
    """infs=True: the extended reals — +inf / -inf among the data (25 %) and as lowest / highest threshold
    (valid, comparable values; the threshold list stays monotone and never repeats an infinity)"""
    nthr = rng.choice([1, 1, 2, 3])
    base = sorted(core.dyadic(rng, -4, 4) for _ in range(nthr))
    if rng.random() < 0.25:
        base[rng.randrange(nthr)] = 0.0
        base.sort()
    if nthr > 1 and rng.random() < 0.25:
        base[1] = base[0]                       # repeated threshold (still monotone)
    fin_base = list(base)
    if infs:
        r = rng.random()
        if r < 0.3:
            base[0] = -math.inf
        elif r < 0.6:
            base[-1] = math.inf
        elif r < 0.7 and nthr > 1:
            base[0], base[-1] = -math.inf, math.inf
    tol = rng.choice(["omit", None, 0, 0.0, 0.25, 0.5, 1.0, 1, 2.0])
    tv = 0.0 if tol in ("omit", None) else float(tol)
    n = rng.randint(1, 6)
    data = []
    for _ in range(n):
        r = rng.random()
        if infs and rng.random() < 0.25:
            data.append(rng.choice([math.inf, -math.inf]))
        elif r < 0.5:
            c = rng.choice(fin_base)
            data.append(c + rng.choice([0, tv, -tv, tv + 0.25, -tv - 0.25, tv - 0.25, -tv + 0.25, 0.25, -0.25]))
        elif r < 0.65:
            data.append(NAN)
        elif r < 0.68 and not finite_only:
            data.append(rng.choice([math.inf, -math.inf]))
        else:
            data.append(core.dyadic(rng, -5, 5))
    kind = rng.choice(["str", "op"])
    name = rng.choice(list(COMPL))
    mode = {"k": "str", "v": OP2STR[name]} if kind == "str" else {"k": "op", "v": name}
    thr = list(base)
    malformed = None
    if malformed_ok:
        r = rng.random()
        if r < 0.05:
            mode = rng.choice([{"k": "str", "v": "=>"}, {"k": "str", "v": "ge"}, {"k": "op", "v": "add"},
                               {"k": "none"}, {"k": "str", "v": ""}])
            malformed = "mode"
        elif r < 0.10:
            tol = rng.choice([-0.25, -1.0, -1])
            malformed = "tolerance"
        elif r < 0.14 and nthr > 1:
            thr = list(reversed(base)) if base[0] != base[-1] else thr
            malformed = "thresholds-order"
        elif r < 0.18:
            thr[rng.randrange(nthr)] = NAN
            malformed = "thresholds-nan"
        elif r < 0.20 and not finite_only:
            thr[-1] = math.inf
            malformed = "thresholds-inf"
    scalar = nthr == 1 and rng.random() < 0.5
    fn = rng.choice(["comparative", "binary"])
    return {"fn": fn, "data": data, "comp": thr, "mode": mode, "tol": tol, "scalar": scalar, "malformed": malformed}


def disc_driver_op(case):
    tol = case["tol"]
    t = None if tol in ("omit", None) else core.fl_str(tol)
    if case["fn"] == "comparative":
        return {"op": "c08.cmp", "args": {"data": fls(case["data"]), "comparison": fls(case["comp"]),
                                          "mode": case["mode"], "tol": t}}
    return {"op": "c08.bin", "args": {"data": fls(case["data"]), "thresholds": fls(case["comp"]),
                                      "mode": case["mode"], "tol": t}}


def case_scalar_value(case):
    """scalar comparison: pass an int when integral (the code accepts float or int)"""
    return case


def run_disc_case(case):
    comp = list(case["comp"])
    if case["scalar"] and float(comp[0]).is_integer() and case.get("int_scalar"):
        comp = [int(comp[0])]
    if case.get("int_thr") and not case["scalar"]:
        # integral thresholds handed over as Python ints (np.array([0, 1, 3]) is int64, a mixed list float64)
        comp = [int(t) if float(t).is_integer() else t for t in comp]
    return run_disc(case["fn"], case["data"], comp, case["mode"], case["tol"], case["scalar"],
                    dtype=case.get("dtype"), cdtype=case.get("cdtype"))


def gen_pairs(rng, binary=False, inf_ok=True):
    """(fcst, obs) as 2-D arrays over dims a, b (obs sometimes only over b: broadcast)"""
    na, nb = rng.choice([1, 2, 3]), rng.choice([1, 2, 3, 4])
    pool = [0.0, 1.0] if binary else None
    thr = rng.choice([0, 0.0, 0, -1.0, -0.5, -2, 0.5, 1.0, 1, 2.25, 0.25])

    # +inf / -inf are VALID, comparable values (inf > thr holds, -inf > thr does not): a pair containing one is
    # classified like any other.  Half of the cases carry infinities (in the forecast, the observation or both).
    pinf_f, pinf_o = (0.0, 0.0) if (binary or not inf_ok or rng.random() < 0.5) else \
        rng.choice([(0.2, 0.0), (0.0, 0.2), (0.2, 0.2), (0.5, 0.5)])

    def val(pn, pi):
        r = rng.random()
        if r < pn:
            return NAN
        if binary:
            return rng.choice(pool)
        if rng.random() < pi:
            return rng.choice([math.inf, -math.inf])
        if r < pn + 0.35:
            return float(thr) + rng.choice([0, 0, 0.25, -0.25])
        return core.dyadic(rng, -3, 3)
    pf, po = rng.choice([0.0, 0.15, 0.4]), rng.choice([0.0, 0.15, 0.4])
    f = [[val(pf, pinf_f) for _ in range(nb)] for _ in range(na)]
    obs_1d = rng.random() < 0.2
    o = [val(po, pinf_o) for _ in range(nb)] if obs_1d else [[val(po, pinf_o) for _ in range(nb)] for _ in range(na)]
    if rng.random() < 0.3 and not obs_1d:      # forecast == observation collisions
        i, j = rng.randrange(na), rng.randrange(nb)
        o[i][j] = f[i][j]
    return f, o, obs_1d, thr


def xr_pairs(f, o, obs_1d, fdtype=None, odtype=None):
    fx = xr.DataArray(np.array(f, dtype=fdtype or float), dims=[fresh("a"), fresh("b")])
    ox = xr.DataArray(np.array(o, dtype=odtype or float), dims=[fresh("b")] if obs_1d else [fresh("a"), fresh("b")])
    return fx, ox


def flat_pairs(f, o, obs_1d):
    ff, oo = [], []
    for i, row in enumerate(f):
        for j, v in enumerate(row):
            ff.append(v)
            oo.append(o[j] if obs_1d else o[i][j])
    return ff, oo


def counts_of(man, **kw):
    """tp, tn, fp, fn, total (floats) of a manager with everything reduced, or per kept index"""
    cd = man.get_counts() if not kw else man.transform(**kw).get_counts()
    return {k[:-6]: np.asarray(v.values, dtype=float) for k, v in cd.items()}


def gen_table_case(rng):
    f, o, obs_1d, thr = gen_pairs(rng)
    op = rng.choice([None, "ge", "gt", "le", "lt", "ge", "gt", "eq", "ne"])
    use_thr = rng.random() < 0.85
    custom = rng.random() < 0.3
    dthr = rng.choice([0.5, -1.0, 0.0, 2]) if custom else 0.001
    dop = rng.choice(["gt", "le", "lt"]) if custom else "ge"
    if rng.random() < 0.06 and op not in ("eq", "ne"):
        # an infinite event threshold with an order relation is well defined ('=='/'!=' of equal infinities: N-C08-1, excluded)
        thr = rng.choice([math.inf, -math.inf])
        use_thr = True
        if rng.random() < 0.5:
            f[0][0] = thr
    return {"f": f, "o": o, "obs_1d": obs_1d, "thr": thr if use_thr else None, "op": op,
            "dthr": dthr, "dop": dop, "custom": custom}


def run_table_case(case):
    """returns dict with events, maps, counts from the implementation, or ('err', class)"""
    from scores.categorical import BinaryContingencyManager, ThresholdEventOperator
    fx, ox = xr_pairs(case["f"], case["o"], case["obs_1d"], case.get("fdtype"), case.get("odtype"))
    teo = ThresholdEventOperator(default_event_threshold=case["dthr"], default_op_fn=getattr(operator, case["dop"])) \
        if case["custom"] else ThresholdEventOperator()
    kw = {}
    if case["thr"] is not None:
        kw["event_threshold"] = case["thr"]
    if case["op"] is not None:
        kw["op_fn"] = getattr(operator, case["op"])
    try:
        with np.errstate(all="ignore"):
            man = teo.make_contingency_manager(fx, ox, **kw)
            fe, oe = teo.make_event_tables(fx, ox, **kw)
            man2 = BinaryContingencyManager(fe, oe)      # second route to the same table
            fe, oe = xr.broadcast(fe, oe)
            mfe, moe = xr.broadcast(man.fcst_events, man.obs_events)
            res = {"counts": {k: float(v) for k, v in counts_of(man).items()},
                   "fe": np.asarray(mfe.transpose("a", "b").values, dtype=float).ravel().tolist(),
                   "oe": np.asarray(moe.transpose("a", "b").values, dtype=float).ravel().tolist(),
                   "fe_t": np.asarray(fe.transpose("a", "b").values, dtype=float).ravel().tolist(),
                   "oe_t": np.asarray(oe.transpose("a", "b").values, dtype=float).ravel().tolist()}
            for cell in ("tp", "tn", "fp", "fn"):
                res["map_" + cell] = np.asarray(getattr(man, cell).transpose("a", "b").values, dtype=float).ravel().tolist()
            keep_a = counts_of(man, preserve_dims=[fresh("a")])
            keep_b = counts_of(man, reduce_dims=[fresh("a")])
            res["keep_a"] = {k: v.tolist() for k, v in keep_a.items()}
            res["keep_b"] = {k: v.tolist() for k, v in keep_b.items()}
            allp = counts_of(man, preserve_dims="all")
            res["keep_all_sum"] = {k: float(np.nansum(v)) for k, v in allp.items()}
            tab = man.get_table()
            res["table"] = {str(k)[:-6]: float(tab.sel(contingency=k)) for k in tab["contingency"].values}
            tr = man.transform()
            res["transform_counts"] = {k[:-6]: float(v) for k, v in tr.get_counts().items()}
            res["tables_route_counts"] = {k: float(v) for k, v in counts_of(man2).items()}
            res["tables_route_keep_a"] = {k: v.tolist() for k, v in counts_of(man2, preserve_dims=[fresh("a")]).items()}
            res["count_dtypes"] = pipeline_dtypes(man)
            res["count_dtypes"].update({"tables_route." + k: v for k, v in pipeline_dtypes(man2, maps_only=True).items()})
        return res
    except Exception as ex:  # noqa: BLE001
        return ("err", core.exc_class(ex) + ": " + str(ex)[:120])


def table_driver_op(case):
    ff, oo = flat_pairs(case["f"], case["o"], case["obs_1d"])
    return {"op": "c08.table", "args": {"fcst": fls(ff), "obs": fls(oo),
                                        "thr": None if case["thr"] is None else core.fl_str(case["thr"]),
                                        "op": case["op"], "dthr": core.fl_str(case["dthr"]), "dop": case["dop"]}}


def spec_driver_op(case):
    """direct counting with the SUPPLIED threshold and operator (defaults only when nothing was supplied)"""
    ff, oo = flat_pairs(case["f"], case["o"], case["obs_1d"])
    thr = case["dthr"] if case["thr"] is None else case["thr"]
    op = case["dop"] if case["op"] is None else case["op"]
    return {"op": "c08.countspec", "args": {"fcst": fls(ff), "obs": fls(oo), "thr": core.fl_str(thr), "op": op}}


def py_count(case):
    """independent direct count in Python"""
    ff, oo = flat_pairs(case["f"], case["o"], case["obs_1d"])
    thr = case["dthr"] if case["thr"] is None else case["thr"]
    op = getattr(operator, case["dop"] if case["op"] is None else case["op"])
    c = {"tp": 0, "tn": 0, "fp": 0, "fn": 0, "total": 0}
    for a, b in zip(ff, oo):
        if math.isnan(a) or math.isnan(b):
            continue
        c["total"] += 1
        ea, eb = bool(op(a, thr)), bool(op(b, thr))
        c["tp" if ea and eb else "tn" if not ea and not eb else "fp" if ea else "fn"] += 1
    return c


def table_desc(case):
    """what a replay needs (storage dtypes only when they are not the default float64)"""
    d = {k: case[k] for k in ("f", "o", "obs_1d", "thr", "op", "dthr", "dop", "custom")}
    d.update({k: case[k] for k in ("fdtype", "odtype") if case.get(k)})
    return d


def disc_desc(c):
    d = {k: c[k] for k in ("fn", "data", "comp", "mode", "tol", "scalar")}
    d.update({k: c[k] for k in ("dtype", "cdtype", "int_thr", "int_scalar") if c.get("dtype") and c.get(k)})
    return d


def table_tags(case):
    t = {"op": case["op"] or "default", "thr": "none" if case["thr"] is None else
         ("zero" if case["thr"] == 0 else "negative" if case["thr"] < 0 else "positive")}
    if case["thr"] is not None and case["thr"] == 0:
        t["defect"] = "F4"
    if case["thr"] is not None and math.isinf(case["thr"]):
        t["infinite"] = "threshold"
    elif any(math.isinf(v) for v in sum(case["f"], [])) or \
            any(math.isinf(v) for v in (case["o"] if case["obs_1d"] else sum(case["o"], []))):
        t["infinite"] = "data"
    if case.get("fdtype") or case.get("odtype"):
        t["dtype"] = (case.get("fdtype") or "float64") + "/" + (case.get("odtype") or "float64")
    return t


# ----------------------------------------------------------------------------- computed (non-dyadic) thresholds
# The relation is decided between the data and the threshold THAT WAS SUPPLIED: 3 * 0.1 = 0.30000000000000004 is a different
# number from 0.3, and data 0.3 is below it.  Thresholds as users compute them (np.arange(n) * 0.1, k / 3, np.linspace, tiny
# magnitudes) with data exactly on the threshold, one ulp either side of it, and on its 12- / 6- / 1-decimal rounding.  With
# tolerance None / 0 nothing is rounded in float64: `comparison + 0 * factor` is the comparison itself, x - c is exact for
# neighbouring doubles and is 0 only for x == c, so the exact-rational Spec value of the same doubles is the required result.
def computed_threshold_pool():
    pool = [float(v) for v in (np.arange(10) * 0.1)[1:]]                      # 0.30000000000000004, 0.6000000000000001, 0.7000000000000001
    pool += [k / 3 for k in (1, 2, 4, 5, -1, -2)] + [k / 7 for k in (1, 2, 3, -3)]
    pool += [float(v) for v in np.linspace(0, 1, 8)[1:-1]] + [float(v) for v in np.linspace(-1, 2, 11)[1:-1]]
    pool += [2.5e-13, 1e-13, -3e-13, 7.5e-14, 4.9e-13, 1e-300]                # below any decimal rounding
    pool += [0.1 + 0.2, 1.1 * 3, 100 * 1.1, 1e6 / 3, 1 - 1e-13, -(0.1 * 3)]
    return sorted(set(pool))


COMPUTED_POOL = computed_threshold_pool()


def ulp_step(x, up, k=1):
    for _ in range(k):
        x = float(np.nextafter(x, math.inf if up else -math.inf))
    return x


def gen_computed_threshold_case(rng):
    nthr = rng.choice([1, 1, 2, 3])
    thr = sorted(set(rng.choice(COMPUTED_POOL) for _ in range(nthr)))
    if rng.random() < 0.2:
        thr = sorted(set(thr + [rng.choice([0.0, 0.25, -0.5, 1.0])]))      # mixed with a short literal
    data = []
    for _ in range(rng.randint(2, 6)):
        r = rng.random()
        t = rng.choice(thr)
        if r < 0.25:
            data.append(t)
        elif r < 0.40:
            data.append(ulp_step(t, rng.random() < 0.5, rng.choice([1, 1, 2, 5])))
        elif r < 0.62:
            data.append(float(round(t, rng.choice([12, 12, 12, 6, 1, 15]))))      # the short decimal next to the computed threshold
        elif r < 0.70:
            data.append(ulp_step(float(round(t, 12)), rng.random() < 0.5))
        elif r < 0.78:
            data.append(NAN)
        elif r < 0.86:
            data.append(rng.choice([0.0, t + 1e-12, t - 1e-12, t * (1 + 1e-13), -t]))
        else:
            data.append(core.dyadic(rng, -2, 2))
    name = rng.choice(list(COMPL))
    mode = {"k": "str", "v": OP2STR[name]} if rng.random() < 0.5 else {"k": "op", "v": name}
    return {"fn": rng.choice(["binary", "binary", "binary", "comparative"]), "data": data, "comp": thr, "mode": mode,
            "tol": rng.choice(["omit", None, 0, 0.0]), "scalar": len(thr) == 1 and rng.random() < 0.4, "malformed": None,
            "batch": "discretise-computed-thresholds"}


def computed_threshold_grid():
    """12 spellings x {binary, comparative}: thresholds 3*0.1, 1/3, 2.5e-13 with data on / one ulp around / the 12-decimal rounding"""
    thr = [2.5e-13, 0.1 * 3, 1 / 3]
    data = [0.0, 2.5e-13, ulp_step(2.5e-13, False), 0.3, 0.1 * 3, ulp_step(0.1 * 3, True), round(1 / 3, 12), 1 / 3,
            ulp_step(1 / 3, True), ulp_step(1 / 3, False), NAN]
    out = []
    for name in COMPL:
        for kind in ("str", "op"):
            for fn in ("binary", "comparative"):
                mode = {"k": "str", "v": OP2STR[name]} if kind == "str" else {"k": "op", "v": name}
                out.append({"fn": fn, "data": data, "comp": thr, "mode": mode, "tol": "omit" if kind == "str" else 0, "scalar": False,
                            "malformed": None, "batch": "discretise-computed-thresholds"})
    return out


def non_dyadic(vals):
    return any(isinstance(v, float) and math.isfinite(v) and not (v * 4).is_integer() for v in vals)



# ----------------------------------------------------------------------------- storage dtype of the data
# The relation between a VALUE and a threshold does not depend on how the value is stored: int64 7, float32 7 and
# float64 7 are all the number 7 (the Lean model / spec work on exact rationals, the model value of an int64 7 is 7).
DTYPES = ["int64", "int32", "int8", "uint8", "bool", "float32"]
INT_RANGE = {"int64": (-6, 8), "int32": (-6, 8), "int8": (-6, 8), "uint8": (0, 8), "bool": (0, 1)}
DT_LIMITS = {"int64": (-2 ** 63, 2 ** 63 - 1), "int32": (-2 ** 31, 2 ** 31 - 1), "int8": (-128, 127), "uint8": (0, 255), "bool": (0, 1)}
# extreme members that are still exact in float64 (an int64 is compared with a float threshold in float64)
EXTREMES = {"int64": [2 ** 40, -2 ** 40], "int32": [2 ** 31 - 1, -2 ** 31], "int8": [-128, 127], "uint8": [255, 200]}
F32_ODD = [0.1, 0.3, -0.1, 0.7, 2.1]           # neither float32 numbers nor dyadic


def f32(x):
    return float(np.float32(x))


def f32_next(x, up):
    return float(np.nextafter(np.float32(x), np.float32(math.inf if up else -math.inf)))


def gen_dtype_thresholds(rng, dt, nthr, narrow):
    lo, hi = INT_RANGE.get(dt, (-3, 3))
    thr = []
    for _ in range(nthr):
        r = rng.random()
        if dt == "float32":
            thr.append(rng.choice(F32_ODD) if (r < 0.7 and not narrow) else core.dyadic(rng, -3, 3))
        elif narrow or r >= 0.75:
            thr.append(float(rng.randint(lo, hi)))                                  # representable in dt
        elif r < 0.12 and dt in ("uint8", "bool"):
            thr.append(float(rng.choice([-1, -2, 2 if dt == "bool" else -3])))      # integer, but outside the dtype
        elif dt == "bool":
            thr.append(rng.choice([0.5, 0.5, -0.5, 0.25, 0.75, 1.5]))
        else:
            thr.append(rng.randint(lo - 1, hi) + rng.choice([0.5, 0.5, 0.5, 0.25, 0.75]))   # k+1/2 ... incl. -0.5, 2.5
    return sorted(thr)


def gen_dtype_values(rng, dt, n, thr, tv, nan_ok=True):
    """n values exactly representable in dt, half of them on / next to / a tolerance away from a threshold"""
    out = []
    if dt == "float32":
        for _ in range(n):
            r = rng.random()
            c = rng.choice(thr)
            if r < 0.55 and (c * 4).is_integer():
                out.append(c + rng.choice([0, tv, -tv, tv + 0.25, -tv - 0.25, tv - 0.25, -tv + 0.25, 0.25, -0.25]))
            elif r < 0.55:
                # the float32 neighbours of a threshold that is not a float32 number: the data lie strictly on one side
                out.append(rng.choice([f32(c), f32(c), f32_next(c, True), f32_next(c, False), f32(c + tv), f32(c - tv),
                                       round(c * 4) / 4]))
            elif r < 0.70 and nan_ok:
                out.append(NAN)
            else:
                out.append(core.dyadic(rng, -4, 4))
        return out
    lo, hi = INT_RANGE[dt]
    dlo, dhi = DT_LIMITS[dt]
    for _ in range(n):
        r = rng.random()
        v = None
        if r < 0.55:
            c = rng.choice(thr)
            cand = [math.floor(c), math.ceil(c), math.floor(c - tv), math.ceil(c - tv), math.floor(c + tv), math.ceil(c + tv),
                    math.floor(c - tv) - 1, math.ceil(c + tv) + 1]
            cand = [k for k in cand if dlo <= k <= dhi]
            v = rng.choice(cand) if cand else None
        elif r < 0.65 and dt in EXTREMES:
            v = rng.choice(EXTREMES[dt])
        out.append(rng.randint(lo, hi) if v is None else int(v))
    return out


def gen_dtype_disc_case(rng, dt=None, narrow=False):
    """data stored as dt; thresholds mostly NOT representable in dt (k+1/2, k+1/4, -1/2 for unsigned, 0.1 for float32).
    narrow=True: comparative_discretise with the comparison values stored in the SAME dtype as the data."""
    dt = dt or rng.choice(DTYPES)
    nthr = rng.choice([1, 1, 2, 3])
    thr = gen_dtype_thresholds(rng, dt, nthr, narrow)
    tol = rng.choice(["omit", None, 0, 0.0, 0.25, 0.5, 1.0, 1, 2.0, 2])
    tv = 0.0 if tol in ("omit", None) else float(tol)
    data = gen_dtype_values(rng, dt, rng.randint(1, 6), thr, tv)
    kind = rng.choice(["str", "op"])
    name = rng.choice(list(COMPL))
    mode = {"k": "str", "v": OP2STR[name]} if kind == "str" else {"k": "op", "v": name}
    c = {"fn": "comparative" if narrow else rng.choice(["comparative", "binary", "binary"]), "data": data, "comp": thr,
         "mode": mode, "tol": tol, "scalar": (not narrow) and nthr == 1 and rng.random() < 0.4, "malformed": None,
         "dtype": dt, "int_thr": rng.random() < 0.5, "int_scalar": rng.random() < 0.5}
    if narrow:
        c["cdtype"] = dt
    return c


def narrow_arith_trigger(c):
    """N-C08-2 (notes/C08.md): data and comparison stored in the SAME integer / bool dtype -> `data - comparison` and
    `comparison + abs_tolerance * factor` are evaluated in that dtype inside comparative_discretise.  Returns the kind
    of out-of-range intermediate this case contains (else None): only such cases carry the defect tag."""
    cd = c.get("cdtype")
    if not cd or cd != c.get("dtype") or c["fn"] != "comparative" or c["scalar"] or cd not in DT_LIMITS:
        return None
    rel, tol = rel_of(c["mode"]), c["tol"]
    if cd == "bool":
        return "bool-subtract" if rel in ("eq", "ne") else None
    lo, hi = DT_LIMITS[cd]
    if rel in ("eq", "ne"):
        dmin = 0 if lo == 0 else -hi          # |lo| itself is not representable: abs(lo) == lo
        if any(not (dmin <= x - t <= hi) for x in c["data"] for t in c["comp"]):
            return "difference-out-of-range"
        return None
    if isinstance(tol, int) and not isinstance(tol, bool) and tol != 0:
        sh = tol * (-1 if rel in ("ge", "lt") else 1)
        if not lo <= sh <= hi:
            return "tolerance-out-of-range"
        if any(not (lo <= t + sh <= hi) for t in c["comp"]):
            return "threshold-plus-tolerance-out-of-range"
    return None


def narrow_witness_cases():
    """the reproductions of notes/C08.md N-C08-2, every run (so the finding is reproduced, or reported as gone, deterministically)"""
    def mk(dt, data, comp, name, tol):
        return {"fn": "comparative", "data": data, "comp": [float(t) for t in comp], "mode": {"k": "str", "v": OP2STR[name]},
                "tol": tol, "scalar": False, "malformed": None, "dtype": dt, "cdtype": dt}
    return [mk("uint8", [0], [1], "eq", 1), mk("int8", [-128], [0], "eq", "omit"), mk("uint8", [3], [255], "gt", 1),
            mk("uint8", [3], [2], "ge", 1), mk("bool", [1, 0], [1, 1], "eq", "omit"),
            # the same numbers where no intermediate leaves the dtype: must pass
            mk("uint8", [1], [0], "eq", 1), mk("int8", [-127], [0], "eq", "omit"), mk("uint8", [3], [2], "ge", 1.0),
            mk("bool", [1, 0], [1, 1], "ge", "omit")]


def rounding_sensitive(c):
    """a pair whose exact |x - c| differs from the tolerance by less than float64 can resolve (never generated on purpose)"""
    tol = c["tol"]
    tv = core.Fraction(0) if tol in ("omit", None) else core.Fraction(tol)
    for x in c["data"]:
        for t in c["comp"]:
            if isinstance(x, float) and (math.isnan(x) or math.isinf(x)) or isinstance(t, float) and (math.isnan(t) or math.isinf(t)):
                continue
            gap = abs(abs(core.Fraction(x) - core.Fraction(t)) - tv)
            if 0 < gap < core.Fraction(1, 10 ** 12):
                return True
    return False


def dtype_grid_cases():
    """every dtype x 12 spellings x tolerance {none, 1/4}: fixed data around the thresholds -1/2, 1/2, 5/2 (0.1, 0.3 for float32)"""
    out = []
    fixed = {"int64": [-1, 0, 1, 2, 3, 7], "int32": [-1, 0, 1, 2, 3, 7], "int8": [-128, -1, 0, 1, 2, 3, 127],
             "uint8": [0, 1, 2, 3, 255], "bool": [0, 1],
             "float32": [0.0, f32(0.1), f32_next(0.1, False), 0.25, f32(0.3), f32_next(0.3, True), 0.5, NAN]}
    for dt in DTYPES:
        thr = [0.1, 0.3, 0.5] if dt == "float32" else [-0.5, 0.5, 2.5]
        for name in COMPL:
            for kind in ("str", "op"):
                for tol in ("omit", 0.25):
                    mode = {"k": "str", "v": OP2STR[name]} if kind == "str" else {"k": "op", "v": name}
                    out.append({"fn": "binary", "data": fixed[dt], "comp": thr, "mode": mode, "tol": tol, "scalar": False,
                                "malformed": None, "dtype": dt})
    return out


def holds_exact(rel, x, c, t):
    return holds(rel, core.Fraction(x), core.Fraction(c), core.Fraction(t))


def expected_proportion_exact(rows, thresholds, rel, tv, red):
    """share of the non-NaN VALUES in the event category (exact rationals), per kept index and threshold"""
    nx, ny, nt = len(rows), len(rows[0]), len(thresholds)
    disc = np.full((nx, ny, nt), np.nan)
    for i in range(nx):
        for j in range(ny):
            v = rows[i][j]
            if isinstance(v, float) and math.isnan(v):
                continue
            for k, t in enumerate(thresholds):
                disc[i, j, k] = 1.0 if holds_exact(rel, v, t, tv) else 0.0
    axes = (0, 1)
    if isinstance(red, list):
        axes = (0,) if red[0] == "x" else (1,)
    import warnings
    with np.errstate(all="ignore"), warnings.catch_warnings():
        warnings.simplefilter("ignore")
        return np.nanmean(disc, axis=axes)


def run_proportion_dtype(desc):
    """binary_discretise_proportion / proportion_exceeding on data stored as desc['dtype']; returns ('ok', array) | ('err', class)"""
    from scores.processing import binary_discretise_proportion
    from scores.processing.discretise import proportion_exceeding
    da = xr.DataArray(np.array(desc["data"], dtype=desc["dtype"]), dims=[fresh("x"), fresh("y")])
    red = desc["reduce_dims"]
    red = [fresh(r) for r in red] if isinstance(red, list) else red
    thr = [int(t) if (desc.get("int_thr") and float(t).is_integer()) else t for t in desc["thresholds"]]
    try:
        with np.errstate(all="ignore"):
            if desc["pfn"] == "proportion_exceeding":
                out = proportion_exceeding(da, thr, reduce_dims=red)
            else:
                kw = {} if desc["tol"] == "omit" else {"abs_tolerance": desc["tol"]}
                out = binary_discretise_proportion(da, thr, py_mode(desc["mode"]), reduce_dims=red, **kw)
        return ("ok", np.asarray(out.transpose(*[d for d in ("x", "y", "threshold") if d in out.dims]).values, dtype=float))
    except Exception as ex:  # noqa: BLE001
        return ("err", core.exc_class(ex) + ": " + str(ex)[:100])


def check_proportion_dtype(ctx, batch, desc):
    """True iff the proportion of `desc` equals the share counted on the exact values"""
    if desc["pfn"] == "proportion_exceeding":
        rel, tv = "ge", 0.0
    else:
        rel = rel_of(desc["mode"])
        tv = 0.0 if desc["tol"] in ("omit", None) else float(desc["tol"])
    tags = {"rel": rel, "dtype": desc["dtype"], "fn": desc["pfn"]}
    got = run_proportion_dtype(desc)
    site = "processing." + desc["pfn"]
    if got[0] != "ok":
        ctx.fail(batch, "property", site, "exception", desc, observed=got[1], expected="proportions", tags=tags)
        return False
    exp = expected_proportion_exact(desc["data"], desc["thresholds"], rel, tv, desc["reduce_dims"])
    if got[1].shape != exp.shape or not all(core.close_ff(a, b) for a, b in zip(got[1].ravel(), exp.ravel())):
        ctx.fail(batch, "property", site, "proportion", desc, observed=got[1].tolist(), expected=exp.tolist(), tags=tags,
                 theorem="proportion_eq_share")
        return False
    return True


def gen_table_case_dtype(rng):
    """forecast / observation stored as int64, int32, int8, uint8, bool, float32 (one of them possibly float64); event
    thresholds mostly not representable in the dtype.  float32 data stay dyadic: with a Python-float threshold numpy
    compares a float32 array in float32 (documented weak-scalar promotion of the caller's own `op_fn(fcst, threshold)`),
    which classifies every dyadic value exactly as the float64 comparison does (notes/C08.md N-C08-3)."""
    fdt = rng.choice(DTYPES)
    odt = rng.choice(DTYPES + ["float64", fdt, fdt])
    if rng.random() < 0.15:
        fdt, odt = "float64", fdt
    na, nb = rng.choice([1, 2, 3]), rng.choice([1, 2, 3, 4])
    both_bool = {fdt, odt} <= {"bool"}
    thr = rng.choice([0.5, 0.5, -0.5, 0.25, 0, 1, 1.0, 0.0] if both_bool else
                     [0.5, 0.5, 2.5, -0.5, 0.1, 0.25, 1.5, 0, 0.0, 1, -1, -1.0, 2, 300, -300])

    def vals(dt, n):
        if dt in ("float32", "float64"):
            return [NAN if rng.random() < 0.2 else (float(thr) if rng.random() < 0.2 and (float(thr) * 4).is_integer()
                                                    else core.dyadic(rng, -3, 3)) for _ in range(n)]
        return gen_dtype_values(rng, dt, n, [float(thr)], 0.0)
    f = [vals(fdt, nb) for _ in range(na)]
    obs_1d = rng.random() < 0.2
    o = vals(odt, nb) if obs_1d else [vals(odt, nb) for _ in range(na)]
    op = rng.choice([None, "ge", "gt", "le", "lt", "ge", "gt", "eq", "ne"])
    use_thr = rng.random() < 0.85
    custom = rng.random() < 0.3
    dthr = rng.choice([0.5, -1.0, 0.0, 2, 2.5]) if custom else 0.001
    dop = rng.choice(["gt", "le", "lt"]) if custom else "ge"
    c = {"f": f, "o": o, "obs_1d": obs_1d, "thr": thr if use_thr else None, "op": op, "dthr": dthr, "dop": dop, "custom": custom}
    if fdt != "float64":
        c["fdtype"] = fdt
    if odt != "float64":
        c["odtype"] = odt
    return c


def check_events_dtype(ctx, batch, desc, spec):
    """BinaryContingencyManager built directly from 0/1 event arrays stored as desc['edtype'] vs the direct count"""
    from scores.categorical import BinaryContingencyManager
    f, o, dt = desc["fcst_events"], desc["obs_events"], desc["edtype"]
    tags = {"dtype": dt}
    try:
        with np.errstate(all="ignore"):
            man = BinaryContingencyManager(xr.DataArray(np.array(f, dtype=dt), dims=[fresh("k")]),
                                           xr.DataArray(np.array(o, dtype=dt), dims=[fresh("k")]))
            cd = {k: float(v) for k, v in counts_of(man).items()}
            maps = {k: np.asarray(getattr(man, k).values, dtype=float).tolist() for k in ("tp", "tn", "fp", "fn")}
            pdt = pipeline_dtypes(man)
    except Exception as ex:  # noqa: BLE001
        ctx.fail(batch, "property", "BinaryContingencyManager", "exception", desc, observed=core.exc_class(ex) + ": " + str(ex)[:100],
                 expected="a contingency manager", tags=tags)
        return False
    cap_ok = check_count_capacity(ctx, batch, desc, pdt, tags)
    exp = {"tp": 0, "tn": 0, "fp": 0, "fn": 0, "total": 0}
    ok = True
    for i, (a, b) in enumerate(zip(f, o)):
        cells = [maps[k][i] for k in ("tp", "tn", "fp", "fn")]
        if a != a or b != b:
            good = all(math.isnan(x) for x in cells)
        else:
            exp["total"] += 1
            cell = "tp" if a == 1 and b == 1 else "tn" if a == 0 and b == 0 else "fp" if a == 1 else "fn"
            exp[cell] += 1
            good = cells == [1.0 if k == cell else 0.0 for k in ("tp", "tn", "fp", "fn")]
        if not good and ok:
            ok = False
            ctx.fail(batch, "property", "BinaryContingencyManager.maps", "maps-not-a-partition", desc,
                     observed={"index": i, "cells": cells}, expected="exactly the pair's own cell is 1 (all NaN on an invalid pair)",
                     tags=tags, theorem="maps_partition")
    if any(cd[k] != exp[k] for k in exp) or (spec is not None and any(not core.close(cd[k], spec[k] if isinstance(spec[k], str) else core.Fraction(spec[k]), 0, 0) for k in exp)):
        ok = False
        ctx.fail(batch, "property", "BinaryContingencyManager.counts", "direct-count", desc, observed=cd,
                 expected=exp if spec is None else {k: spec[k] for k in exp}, tags=tags, theorem="threshold_counts_eq_direct")
    return ok and cap_ok


def events_spec_op(desc):
    """0/1 events: the event is 'value > 1/2' (direct count in the Lean spec)"""
    return {"op": "c08.countspec", "args": {"fcst": fls(desc["fcst_events"]), "obs": fls(desc["obs_events"]), "thr": "1/2", "op": "gt"}}



# ----------------------------------------------------------------------------- counts of ANY size: accumulator capacity
# tp + fp + fn + tn = number of valid pairs holds for lists of any length (theorem total_eq_valid_pairs).  The code adds
# 0/1 maps with .sum(): the addition is exact as long as every partial sum is representable in the dtype numpy accumulates
# in (float64: 2^53, float32: 2^24 — a 4096 x 4096 grid).  The counts are REPORTED as float64, so no stage of the pipeline
# (the four maps the manager holds, the reduced counts, the table) may accumulate in anything narrower.  A narrower stage is
# demonstrated with a real input: one cell holding capacity + 3 pairs (cheap for float32 / float16; the same field is run
# unconditionally in the thorough tier only — on the unchanged tree it needs ~1 GB and ~6 s, too much for the quick tier).
REQUIRED_CAPACITY = 2 ** 53
_CAPACITY_WITNESS_DONE = set()


def count_capacity(dtype_name):
    """largest n such that every count 0..n is exact when 0/1 values of this dtype are added with .sum()"""
    try:
        acc = np.zeros(1, dtype=np.dtype(dtype_name)).sum().dtype      # the accumulator numpy uses for this dtype
    except Exception:  # noqa: BLE001
        return 0
    if acc.kind == "f":
        return 2 ** (np.finfo(acc).nmant + 1)
    if acc.kind in "iu":
        return int(np.iinfo(acc).max)
    return 0


def pipeline_dtypes(man, maps_only=False):
    """dtype of every array of the count pipeline that is observable on a manager"""
    d = {"map." + k: str(getattr(man, k).dtype) for k in ("tp", "tn", "fp", "fn")}
    if maps_only:
        return d
    d.update({"counts." + k[:-6]: str(v.dtype) for k, v in man.get_counts().items()})
    d["table"] = str(man.get_table().dtype)
    d.update({"kept_counts." + k[:-6]: str(v.dtype) for k, v in man.transform(preserve_dims="all").get_counts().items()})
    return d


def big_events_desc(capacity, edtype="int8"):
    """2 x m field of 0/1 events, all (0, 0) except one (1, 0) pair: tn = 2m - 1 = capacity + 3 (odd: not representable one
    binade above `capacity`), each row's own count stays below the capacity"""
    m = capacity // 2 + 2
    return {"big_events": True, "n_a": 2, "n_b": m, "fcst_one_at": [0, 0], "edtype": edtype}


def run_big_events(desc):
    """-> (counts, kept-per-row counts, expected counts, expected per-row) of the constant field `desc`"""
    from scores.categorical import BinaryContingencyManager
    na, nb = desc["n_a"], desc["n_b"]
    fe = np.zeros((na, nb), dtype=desc["edtype"])
    i, j = desc["fcst_one_at"]
    fe[i, j] = 1
    oe = np.zeros((na, nb), dtype=desc["edtype"])
    with np.errstate(all="ignore"):
        man = BinaryContingencyManager(xr.DataArray(fe, dims=[fresh("a"), fresh("b")]), xr.DataArray(oe, dims=[fresh("a"), fresh("b")]))
        cd = {k: float(v) for k, v in counts_of(man).items()}
        kept = {k: v.tolist() for k, v in counts_of(man, preserve_dims=[fresh("a")]).items()}
    del man, fe, oe
    n = na * nb
    exp = {"tp": 0.0, "tn": float(n - 1), "fp": 1.0, "fn": 0.0, "total": float(n)}
    exp_kept = {"tp": [0.0] * na, "tn": [float(nb - (1 if r == i else 0)) for r in range(na)],
                "fp": [1.0 if r == i else 0.0 for r in range(na)], "fn": [0.0] * na, "total": [float(nb)] * na}
    return cd, kept, exp, exp_kept


def check_big_events(ctx, batch, desc, tags=None):
    """True iff the counts of the large constant field are the direct counts, partition the pairs and are additive over rows"""
    tags = dict(tags or {}, size="large", dtype=desc["edtype"])
    try:
        cd, kept, exp, exp_kept = run_big_events(desc)
    except Exception as ex:  # noqa: BLE001
        ctx.fail(batch, "property", "BinaryContingencyManager", "exception", desc, observed=core.exc_class(ex) + ": " + str(ex)[:100],
                 expected="a contingency manager", tags=tags)
        return False
    ok = True
    if cd["tp"] + cd["tn"] + cd["fp"] + cd["fn"] != exp["total"] or cd["total"] != exp["total"]:
        ok = False
        ctx.fail(batch, "property", "BinaryContingencyManager.counts", "partition", desc, observed=cd, expected=exp, tags=tags,
                 theorem="total_eq_valid_pairs")
    if any(cd[k] != exp[k] for k in exp):
        ok = False
        ctx.fail(batch, "property", "BinaryContingencyManager.counts", "direct-count", desc, observed=cd, expected=exp, tags=tags,
                 theorem="threshold_counts_eq_direct")
    if any(kept[k] != exp_kept[k] for k in exp):
        ok = False
        ctx.fail(batch, "property", "BinaryContingencyManager.transform", "kept-direct-count:keep_a", desc, observed=kept,
                 expected=exp_kept, tags=tags, theorem="threshold_counts_eq_direct")
    for cell in exp:
        if float(np.sum(kept[cell])) != cd[cell]:
            ok = False
            ctx.fail(batch, "property", "BinaryContingencyManager.transform", "kept-counts-do-not-sum:" + cell, desc,
                     observed={"keep_a": kept[cell], "reduced": cd[cell]}, expected="rows sum to the reduced count", tags=tags,
                     theorem="counts_flatten")
            break
    return ok


def check_count_capacity(ctx, batch, desc, dtypes, tags):
    """every stage of the count pipeline adds exactly up to REQUIRED_CAPACITY pairs; a narrower stage is first shown on a real
    field of capacity + 3 pairs (once per run and stage dtype, only when affordable), then reported on the case at hand"""
    narrow = {k: v for k, v in dtypes.items() if count_capacity(v) < REQUIRED_CAPACITY}
    if not narrow:
        return True
    cap = min(count_capacity(v) for v in narrow.values())
    key = tuple(sorted(set(narrow.values())))
    if key not in _CAPACITY_WITNESS_DONE and 0 < cap <= 2 ** 25:
        _CAPACITY_WITNESS_DONE.add(key)
        big = big_events_desc(cap)
        ctx.case("counts-beyond-accumulator-capacity", big)
        check_big_events(ctx, "counts-beyond-accumulator-capacity", big, {"narrow_stage": ",".join(key)})
    ctx.fail(batch, "property", "BinaryContingencyManager.counts", "count-accumulator-too-narrow", desc,
             observed={"stages": narrow, "exact_up_to": cap},
             expected="every stage (maps tp/tn/fp/fn, counts, table) adds 0/1 exactly up to 2^53 pairs (float64 or a 64-bit integer), "
                      "as the float64 counts it reports; beyond `exact_up_to` pairs in one cell tp+fp+fn+tn != number of valid pairs",
             tags=dict(tags, narrow_stage=",".join(key)), theorem="total_eq_valid_pairs")
    return False



# ----------------------------------------------------------------------------- checks on one case
def check_table_against(ctx, batch, kind, case, res, model, spec=False):
    """compare the implementation's events / maps / counts with `model` (driver table or direct-count spec)"""
    tags = table_tags(case)
    desc = table_desc(case)
    if isinstance(res, tuple):
        ctx.fail(batch, kind, "ThresholdEventOperator.make_contingency_manager", "exception", desc,
                 observed=res[1], expected="a contingency manager", tags=tags)
        return False
    ok = True

    def bad(site, sig, obs, exp, thm=None):
        nonlocal ok
        ok = False
        ctx.fail(batch, kind, site, sig, desc, observed=obs, expected=exp, tags=tags, theorem=thm)
    pairs = [("fe", "fcst_events"), ("oe", "obs_events")]
    pairs_t = [("fe_t", "fcst_events" if spec else "fcst_events_tables"), ("oe_t", "obs_events" if spec else "obs_events_tables")]
    for k, mk in pairs:
        if not all(core.close(a, b, 0, 0) for a, b in zip(res[k], model[mk])) or len(res[k]) != len(model[mk]):
            bad("ThresholdEventOperator.make_contingency_manager", "events-differ", res[k], model[mk], "events_eq_op")
            break
    for k, mk in pairs_t:
        if not all(core.close(a, b, 0, 0) for a, b in zip(res[k], model[mk])) or len(res[k]) != len(model[mk]):
            bad("ThresholdEventOperator.make_event_tables", "events-differ", res[k], model[mk], "events_tables_eq_op")
            break
    for cell in ("tp", "tn", "fp", "fn", "total"):
        exp = model[cell]
        for where in ("counts", "table", "transform_counts", "keep_all_sum", "tables_route_counts"):
            got = res[where].get(cell)
            if got is None or not core.close(got, exp if isinstance(exp, str) else core.Fraction(exp), 0, 0):
                site = "make_event_tables+BinaryContingencyManager.counts" if where == "tables_route_counts" \
                    else "BinaryContingencyManager." + where
                bad(site, "count-differs:" + cell, got, exp, "threshold_counts_eq_direct")
                break
    return ok


def check_table_relations(ctx, batch, case, res):
    """laws between implementation outputs: partition, direct indicator maps, additivity along a dimension"""
    if isinstance(res, tuple):
        return
    tags = table_tags(case)
    desc = table_desc(case)
    c = res["counts"]
    ff, oo = flat_pairs(case["f"], case["o"], case["obs_1d"])
    nvalid = sum(1 for a, b in zip(ff, oo) if not (math.isnan(a) or math.isnan(b)))
    if not (c["tp"] + c["tn"] + c["fp"] + c["fn"] == c["total"] == nvalid):
        ctx.fail(batch, "property", "BinaryContingencyManager.counts", "partition", desc, observed=c,
                 expected={"total": nvalid}, tags=tags, theorem="total_eq_valid_pairs")
    pc = py_count(case)
    if any(c[k] != pc[k] for k in pc):
        ctx.fail(batch, "property", "BinaryContingencyManager.counts", "direct-count", desc, observed=c, expected=pc,
                 tags=tags, theorem="threshold_counts_eq_direct")
    # maps: NaN exactly on invalid pairs, otherwise exactly one map is 1
    for i, (a, b) in enumerate(zip(ff, oo)):
        cells = [res["map_" + k][i] for k in ("tp", "tn", "fp", "fn")]
        if math.isnan(a) or math.isnan(b):
            good = all(math.isnan(x) for x in cells)
        else:
            good = sorted(cells) == [0.0, 0.0, 0.0, 1.0]
        if not good:
            ctx.fail(batch, "property", "BinaryContingencyManager.maps", "maps-not-a-partition", desc,
                     observed={"index": i, "cells": cells}, expected="exactly one 1 (or all NaN on an invalid pair)",
                     tags=tags, theorem="maps_partition")
            break
    # counts kept along dimension a = direct count of each row (both routes to the table)
    for keep in ("keep_a", "tables_route_keep_a"):
        for i, row in enumerate(case["f"]):
            sub = dict(case)
            sub.update({"f": [row], "o": case["o"] if case["obs_1d"] else [case["o"][i]]})
            pr = py_count(sub)
            got = {k: res[keep][k][i] for k in pr}
            if any(got[k] != pr[k] for k in pr):
                ctx.fail(batch, "property", "BinaryContingencyManager.transform", "kept-direct-count:" + keep, desc,
                         observed={"index": i, "counts": got}, expected=pr, tags=tags, theorem="threshold_counts_eq_direct")
                break
    # counts kept along a dimension sum to the fully reduced counts
    for keep in ("keep_a", "keep_b"):
        for cell in ("tp", "tn", "fp", "fn", "total"):
            s = float(np.sum(res[keep][cell]))
            if s != c[cell]:
                ctx.fail(batch, "property", "BinaryContingencyManager.transform", "kept-counts-do-not-sum:" + cell, desc,
                         observed={keep: res[keep][cell]}, expected=c[cell], tags=tags, theorem="counts_flatten")
                break
    check_count_capacity(ctx, batch, desc, res.get("count_dtypes", {}), tags)


# ----------------------------------------------------------------------------- correspondence
def correspondence(ctx):
    rng = ctx.rng
    # A/B: comparative_discretise and binary_discretise vs the translated relation chain
    cases = []
    for _ in range(ctx.n(350, 6000)):
        c = gen_disc_case(rng)
        c["int_scalar"] = rng.random() < 0.5
        cases.append(c)
    # every spelling with tolerance on a fixed boundary grid (exhaustive small part)
    grid = [-1.0, -0.75, -0.5, -0.25, 0.0, 0.25, 0.5, 0.75, 1.0, NAN, math.inf, -math.inf]
    for name in COMPL:
        for kind in ("str", "op"):
            for tol in ("omit", 0.25, 0.5):
                mode = {"k": "str", "v": OP2STR[name]} if kind == "str" else {"k": "op", "v": name}
                cases.append({"fn": "comparative", "data": grid, "comp": [0.0, 0.25, NAN, math.inf], "mode": mode, "tol": tol,
                              "scalar": False, "malformed": None})
    ctx.exhaustive.append("12 mode spellings x tolerance {none, 1/4, 1/2} x 12 data values x 4 comparison values")
    # storage dtype of the data: the model value of an int64 / float32 7 is the number 7
    for _ in range(ctx.n(120, 1200)):
        cases.append(gen_dtype_disc_case(rng))
    # computed (non-dyadic) thresholds, tolerance none / 0: the model compares the same doubles as exact rationals
    for _ in range(ctx.n(50, 600)):
        cases.append(gen_computed_threshold_case(rng))
    model = core.run_driver("C08", [disc_driver_op(c) for c in cases])
    for c, m in zip(cases, model):
        res = run_disc_case(c)
        desc = disc_desc(c)
        ctx.case("discretise-vs-translated-chain", desc, nontrivial=c["malformed"] is None and res[0] == "ok")
        ctx.tag("malformed:" + str(c["malformed"]) if c["malformed"] else "mode:" + str(rel_of(c["mode"])) + ":" + c["mode"]["k"])
        if c.get("dtype"):
            ctx.tag("corr-dtype:" + c["dtype"])
            if c["dtype"] == "float32" and rounding_sensitive(c):
                ctx.tag("rounding-sensitive-skipped")
                continue
        if not disc_result_matches(res, m):
            ctx.fail("discretise-vs-translated-chain", "correspondence", "processing." + c["fn"] + "_discretise", "value",
                     desc, observed=res, expected=m, tags={"mode": str(c["mode"].get("v")), "malformed": str(c["malformed"]),
                                                            "dtype": c.get("dtype", "float64")})
    # C: proportion
    from scores.processing import binary_discretise_proportion
    pcs, pops = [], []
    for _ in range(ctx.n(80, 1500)):
        c = gen_disc_case(rng, malformed_ok=False)
        c["fn"] = "binary"
        if rng.random() < 0.15:
            c["data"] = [NAN] * len(c["data"])
        pcs.append(c)
    for _ in range(ctx.n(40, 400)):
        c = gen_dtype_disc_case(rng)
        c["fn"] = "binary"
        if c["dtype"] == "float32" and rounding_sensitive(c):
            continue
        pcs.append(c)
    for c in pcs:
        tol = c["tol"]
        pops.append({"op": "c08.prop", "args": {"data": fls(c["data"]), "thresholds": fls(c["comp"]), "mode": c["mode"],
                                                "tol": None if tol in ("omit", None) else core.fl_str(tol)}})
    pm = core.run_driver("C08", pops)
    for c, m in zip(pcs, pm):
        d = xr.DataArray(np.array(c["data"], dtype=c.get("dtype") or float), dims=[fresh("x")])
        kw = {} if c["tol"] == "omit" else {"abs_tolerance": c["tol"]}
        try:
            with np.errstate(all="ignore"):
                out = binary_discretise_proportion(d, list(c["comp"]), py_mode(c["mode"]), **kw)
            got = ("ok", np.asarray(out.values, dtype=float).ravel().tolist())
        except Exception as ex:  # noqa: BLE001
            got = ("err", core.exc_class(ex))
        desc = {k: c[k] for k in ("data", "comp", "mode", "tol") + (("dtype",) if c.get("dtype") else ())}
        ctx.case("proportion-vs-model", desc)
        good = ("ok" in m and got[0] == "ok" and len(got[1]) == len(m["ok"]) and all(core.close(a, b) for a, b in zip(got[1], m["ok"]))) \
            or ("err" in m and got == ("err", m["err"]))
        if not good:
            ctx.fail("proportion-vs-model", "correspondence", "processing.binary_discretise_proportion", "value", desc,
                     observed=got, expected=m, tags={"mode": str(c["mode"].get("v"))})
    # D: ThresholdEventOperator -> events, maps, counts vs translated events + translated maps + nansum
    tcs = [gen_table_case(rng) for _ in range(ctx.n(150, 3000))]
    tcs += [gen_table_case_dtype(rng) for _ in range(ctx.n(50, 600))]
    tm = core.run_driver("C08", [table_driver_op(c) for c in tcs])
    for c, m in zip(tcs, tm):
        res = run_table_case(c)
        ctx.case("event-operator-vs-translated-model", table_desc(c))
        ctx.tag("thr:" + table_tags(c)["thr"])
        check_table_against(ctx, "event-operator-vs-translated-model", "correspondence", c, res, m)
    # E: BinaryContingencyManager on event arrays (incl. non-binary values) vs translated maps + nansum
    from scores.categorical import BinaryContingencyManager
    ecs, eops = [], []
    for _ in range(ctx.n(80, 1500)):
        n = rng.randint(1, 8)
        pool = [0.0, 1.0, 0.0, 1.0, NAN] + ([0.5, 2.0, -1.0] if rng.random() < 0.3 else [])
        f = [rng.choice(pool) for _ in range(n)]
        o = [rng.choice(pool) for _ in range(n)]
        ecs.append((f, o))
        eops.append({"op": "c08.etable", "args": {"fcst": fls(f), "obs": fls(o)}})
    em = core.run_driver("C08", eops)
    for (f, o), m in zip(ecs, em):
        ctx.case("binary-manager-vs-translated-maps", {"fcst_events": f, "obs_events": o})
        man = BinaryContingencyManager(xr.DataArray(f, dims=["k"]), xr.DataArray(o, dims=["k"]))
        cd = {k: float(v) for k, v in counts_of(man).items()}
        for cell in ("tp", "tn", "fp", "fn", "total"):
            bad = not core.close(cd[cell], m[cell], 0, 0)
            if cell != "total":
                mp = np.asarray(getattr(man, cell).values, dtype=float).tolist()
                bad = bad or not all(core.close(a, b, 0, 0) for a, b in zip(mp, m["map_" + cell]))
            if bad:
                ctx.fail("binary-manager-vs-translated-maps", "correspondence", "BinaryContingencyManager." + cell, "value",
                         {"fcst_events": f, "obs_events": o}, observed=cd, expected=m, tags={"cell": cell})
                break


# ----------------------------------------------------------------------------- the property itself
def oracle_disc_case(ctx, batch, c, spec_rows, res=None):
    """implementation vs the hand-written definition (Lean Spec), complement law, spelling law"""
    desc = disc_desc(c)
    rel = rel_of(c["mode"])
    tags = {"mode": str(c["mode"]["v"]), "rel": rel, "fn": c["fn"]}
    if any(math.isinf(v) for v in list(c["data"]) + list(c["comp"])):
        tags["infinite"] = "yes"
    if not c.get("dtype") and non_dyadic(list(c["comp"])):
        tags["thresholds"] = "computed"
    if c.get("dtype"):
        tags["dtype"] = c["dtype"]
        if c.get("cdtype"):
            tags["comparison_dtype"] = c["cdtype"]
        trig = narrow_arith_trigger(c)
        if trig:
            tags["defect"] = "N-C08-2"
            tags["narrow"] = trig
    res = res or run_disc_case(c)
    site = "processing." + c["fn"] + "_discretise"
    if res[0] != "ok":
        ctx.fail(batch, "property", site, "exception", desc, observed=res[1], expected="0/1/NaN array", tags=tags)
        return False
    ok = True
    if not same_matrix(res[1], spec_rows, allow_none=True):
        ctx.fail(batch, "property", site, "relation-table", desc, observed=res[1], expected=spec_rows, tags=tags,
                 theorem="mode_table_" + rel)
        ok = False
    # other spelling of the same relation: identical result
    other = dict(c)
    other["mode"] = {"k": "op", "v": rel} if c["mode"]["k"] == "str" else {"k": "str", "v": OP2STR[rel]}
    r2 = run_disc_case(other)
    if r2[0] != "ok" or not all(core.close_ff(a, b, 0, 0) for ra, rb in zip(res[1], r2[1]) for a, b in zip(ra, rb)):
        ctx.fail(batch, "property", site, "spelling-differs", desc, observed=r2, expected=res[1], tags=tags,
                 theorem="string_eq_operator_" + rel)
        ok = False
    # complementary relation: sums to 1 on non-NaN, NaN stays NaN
    comp = dict(c)
    comp["mode"] = {"k": c["mode"]["k"], "v": COMPL[rel] if c["mode"]["k"] == "op" else OP2STR[COMPL[rel]]}
    r3 = run_disc_case(comp)
    good = r3[0] == "ok"
    if good:
        for i, x in enumerate(c["data"]):
            for j, t in enumerate(c["comp"]):
                a, b = res[1][i][j], r3[1][i][j]
                if math.isnan(x) or math.isnan(t):
                    good = good and math.isnan(a) and math.isnan(b)
                elif rel in ("eq", "ne") and math.isinf(x) and x == t:
                    continue                      # '==' / '!=' between equal infinities: N-C08-1, outside the domain
                else:
                    good = good and (a + b == 1.0) and a in (0.0, 1.0)
    if not good:
        ctx.fail(batch, "property", site, "complement-not-one", desc, observed={"mode": res[1], "complement": r3},
                 expected="sum 1 on non-NaN, NaN on NaN", tags=tags, theorem="complementary_sum_one")
        ok = False
    return ok


def spec_op(c):
    tol = c["tol"]
    return {"op": "c08.specx", "args": {"data": fls(c["data"]), "comparison": fls(c["comp"]), "rel": rel_of(c["mode"]),
                                       "tol": "0" if tol in ("omit", None) else core.fl_str(tol)}}


def oracle(ctx, boost):
    rng = ctx.rng
    mult = 5 if boost else 1
    # the counts a manager holds are STATE: sequences of transform calls on one manager, compared with fresh managers and direct counts
    from sv.props import c09 as _c09
    _c09.oracle_sequences(ctx, ctx.n(40, 600) * (3 if boost else 1), prop="C08")
    # 1. discretisation against its definition
    cases = []
    for _ in range(ctx.n(250, 5000) * mult):
        c = gen_disc_case(rng, malformed_ok=False, finite_only=True)
        c["int_scalar"] = rng.random() < 0.5
        cases.append(c)
    # the extended reals: +inf / -inf as data and as thresholds are valid, comparable values (Spec.discX)
    for _ in range(ctx.n(80, 1500) * mult):
        c = gen_disc_case(rng, malformed_ok=False, finite_only=True, infs=True)
        c["int_scalar"] = rng.random() < 0.5
        cases.append(c)
    xgrid = [-math.inf, -0.25, 0.0, 0.25, math.inf, NAN]
    for name in COMPL:
        for kind in ("str", "op"):
            for tol in ("omit", 0.25):
                mode = {"k": "str", "v": OP2STR[name]} if kind == "str" else {"k": "op", "v": name}
                cases.append({"fn": "comparative", "data": xgrid, "comp": [-math.inf, 0.0, math.inf, NAN], "mode": mode,
                              "tol": tol, "scalar": False, "malformed": None})
                cases.append({"fn": "binary", "data": xgrid, "comp": [-math.inf, 0.0, math.inf], "mode": mode,
                              "tol": tol, "scalar": False, "malformed": None})
    ctx.exhaustive.append("oracle: 12 spellings x tolerance {none, 1/4} x data {-inf, -1/4, 0, 1/4, inf, NaN} x thresholds "
                          "{-inf, 0, inf(, NaN)}, both functions")
    grid = [k / 4 for k in range(-8, 9)] + [NAN]
    for name in COMPL:
        for kind in ("str", "op"):
            for tol in ("omit", 0, 0.25, 0.5, 1.0):
                mode = {"k": "str", "v": OP2STR[name]} if kind == "str" else {"k": "op", "v": name}
                cases.append({"fn": "comparative", "data": grid, "comp": [-0.5, 0.0, 0.25, NAN], "mode": mode, "tol": tol,
                              "scalar": False, "malformed": None})
                cases.append({"fn": "binary", "data": grid, "comp": [-0.5, 0.0, 0.0, 0.25], "mode": mode, "tol": tol,
                              "scalar": False, "malformed": None})
    ctx.exhaustive.append("oracle: 12 spellings x 5 tolerances x 17 data values k/4 in [-2,2] + NaN x 4 thresholds, both functions")
    # storage dtype of the data (int64, int32, int8, uint8, bool, float32): the classification is the one of the VALUES
    for _ in range(ctx.n(260, 3000) * mult):
        cases.append(gen_dtype_disc_case(rng))
    cases += dtype_grid_cases()
    ctx.exhaustive.append("oracle: 6 storage dtypes x 12 spellings x tolerance {none, 1/4} x fixed data incl. the dtype's extremes x "
                          "thresholds {-1/2, 1/2, 5/2} ({0.1, 0.3, 1/2} and their float32 neighbours for float32), binary_discretise")
    # comparison stored in the same (narrow) dtype as the data: out-of-range intermediates are N-C08-2 (tagged)
    for _ in range(ctx.n(60, 600) * mult):
        cases.append(gen_dtype_disc_case(rng, dt=rng.choice(["int64", "int32", "int8", "uint8", "bool"]), narrow=True))
    cases += narrow_witness_cases()
    # thresholds as users compute them (k * 0.1, k / 3, linspace, below 1e-12): the SUPPLIED number decides, tolerance none / 0
    for _ in range(ctx.n(150, 2500) * mult):
        cases.append(gen_computed_threshold_case(rng))
    cases += computed_threshold_grid()
    ctx.exhaustive.append("oracle: 12 spellings x both functions x thresholds {2.5e-13, 3*0.1, 1/3} x data on / one ulp around / "
                          "the 12-decimal rounding of each threshold")
    spec = core.run_driver("C08S", [spec_op(c) for c in cases])
    for c, s in zip(cases, spec):
        batch = "discretise-vs-definition"
        if c.get("dtype"):
            batch = "discretise-same-dtype-comparison" if c.get("cdtype") else "discretise-storage-dtype"
            ctx.tag("oracle-dtype:" + c["dtype"] + (":same-dtype-comparison" if c.get("cdtype") else ""))
            if c["dtype"] == "float32" and rounding_sensitive(c):
                ctx.tag("rounding-sensitive-skipped")
                continue
        if c.get("batch"):
            batch = c["batch"]
            ctx.tag("oracle-computed-thresholds:" + c["fn"])
        ctx.case(batch, disc_desc(c))
        if any(math.isinf(v) for v in list(c["data"]) + list(c["comp"])):
            ctx.tag("oracle-disc:infinite")
        oracle_disc_case(ctx, batch, c, s)
    # 2. proportion = share of valid data in the event category
    from scores.processing import binary_discretise_proportion
    for _ in range(ctx.n(60, 1000) * mult):
        c = gen_disc_case(rng, malformed_ok=False, finite_only=True)
        rel = rel_of(c["mode"])
        tv = 0.0 if c["tol"] in ("omit", None) else float(c["tol"])
        d2 = [[rng.choice(c["data"]) for _ in range(rng.randint(1, 3))] for _ in c["data"]]
        da = xr.DataArray(np.array([r + [NAN] * (3 - len(r)) for r in d2], dtype=float), dims=[fresh("x"), fresh("y")])
        kw = {} if c["tol"] == "omit" else {"abs_tolerance": c["tol"]}
        red = rng.choice([None, [fresh("y")], [fresh("x")], "all"])
        desc = {"data": da.values.tolist(), "thresholds": c["comp"], "mode": c["mode"], "tol": c["tol"], "reduce_dims": red}
        ctx.case("proportion-is-share", desc)
        try:
            with np.errstate(all="ignore"):
                out = binary_discretise_proportion(da, list(c["comp"]), py_mode(c["mode"]), reduce_dims=red, **kw)
        except Exception as ex:  # noqa: BLE001
            ctx.fail("proportion-is-share", "property", "processing.binary_discretise_proportion", "exception", desc,
                     observed=core.exc_class(ex), expected="proportions", tags={"rel": rel})
            continue
        exp = expected_proportion(da.values, c["comp"], rel, tv, red)
        got = out.transpose(*[d for d in ("x", "y", "threshold") if d in out.dims]).values
        if got.shape != exp.shape or not all(core.close_ff(a, b) for a, b in zip(got.ravel(), exp.ravel())):
            ctx.fail("proportion-is-share", "property", "processing.binary_discretise_proportion", "proportion", desc,
                     observed=got.tolist(), expected=exp.tolist(), tags={"rel": rel}, theorem="proportion_eq_share")
    # 2b. the same on data stored as int / bool / float32 (binary_discretise_proportion and proportion_exceeding)
    for _ in range(ctx.n(90, 1000) * mult):
        c = gen_dtype_disc_case(rng)
        if c["dtype"] == "float32" and rounding_sensitive(c):
            continue
        ny = rng.randint(1, 3)
        rows = [[rng.choice(c["data"]) for _ in range(ny)] for _ in c["data"]]
        red = rng.choice([None, ["y"], ["x"], "all"])
        desc = {"data": rows, "thresholds": c["comp"], "mode": c["mode"], "tol": c["tol"], "reduce_dims": red, "dtype": c["dtype"],
                "int_thr": c["int_thr"], "pfn": rng.choice(["binary_discretise_proportion", "binary_discretise_proportion",
                                                            "proportion_exceeding"])}
        ctx.case("proportion-storage-dtype", desc)
        ctx.tag("oracle-proportion-dtype:" + c["dtype"])
        check_proportion_dtype(ctx, "proportion-storage-dtype", desc)
    # 2c. proportions against computed thresholds (float64 data; share counted on the exact values)
    for _ in range(ctx.n(40, 600) * mult):
        c = gen_computed_threshold_case(rng)
        ny = rng.randint(1, 3)
        rows = [[rng.choice(c["data"]) for _ in range(ny)] for _ in c["data"]]
        desc = {"data": rows, "thresholds": c["comp"], "mode": c["mode"], "tol": c["tol"], "reduce_dims": rng.choice([None, ["y"], ["x"], "all"]),
                "dtype": "float64", "int_thr": False,
                "pfn": rng.choice(["binary_discretise_proportion", "binary_discretise_proportion", "proportion_exceeding"])}
        ctx.case("proportion-computed-thresholds", desc)
        check_proportion_dtype(ctx, "proportion-computed-thresholds", desc)
    # 2d. thorough tier: one cell holding 2^24 + 3 pairs (beyond what a single-precision accumulator adds exactly)
    if ctx.thorough:
        big = big_events_desc(2 ** 24)
        ctx.case("counts-beyond-accumulator-capacity", big)
        _CAPACITY_WITNESS_DONE.add(("float32",))
        check_big_events(ctx, "counts-beyond-accumulator-capacity", big)
    # 3. contingency counts of a threshold event operator: direct counting (Lean Spec + Python), partition, additivity
    tcs = [gen_table_case(rng) for _ in range(ctx.n(150, 3000) * mult)]
    # forecasts / observations stored as int64, int32, int8, uint8, bool, float32
    tcs += [gen_table_case_dtype(rng) for _ in range(ctx.n(110, 1200) * mult)]
    # thresholds 0 and negative with every operator, explicitly
    for thr in (0, 0.0, -1.0, -0.25):
        for op in ("ge", "gt", "le", "lt", "eq", "ne", None):
            c = gen_table_case(rng)
            c.update({"thr": thr, "op": op})
            c["f"][0][0] = float(thr)
            tcs.append(c)
    # 4. BinaryContingencyManager on 0/1 event arrays stored as bool / integers / float32
    ecs = []
    for _ in range(ctx.n(40, 400) * mult):
        dt = rng.choice(DTYPES)
        n = rng.randint(1, 8)
        pool = [0, 1] if dt != "float32" else [0.0, 1.0, 0.0, 1.0, NAN]
        ecs.append({"fcst_events": [rng.choice(pool) for _ in range(n)], "obs_events": [rng.choice(pool) for _ in range(n)],
                    "edtype": dt})
    spec = core.run_driver("C08S", [spec_driver_op(c) for c in tcs] + [events_spec_op(d) for d in ecs])
    for c, s in zip(tcs, spec):
        batch = "event-operator-storage-dtype" if (c.get("fdtype") or c.get("odtype")) else "event-operator-vs-direct-count"
        ctx.case(batch, table_desc(c))
        ctx.tag("oracle-thr:" + table_tags(c)["thr"])
        if batch == "event-operator-storage-dtype":
            ctx.tag("oracle-table-dtype:" + (c.get("fdtype") or "float64"))
        res = run_table_case(c)
        check_table_against(ctx, batch, "property", c, res, s, spec=True)
        check_table_relations(ctx, batch, c, res)
    for d, s in zip(ecs, spec[len(tcs):]):
        ctx.case("binary-manager-storage-dtype", d)
        ctx.tag("oracle-events-dtype:" + d["edtype"])
        check_events_dtype(ctx, "binary-manager-storage-dtype", d, s)


def holds(rel, x, c, t):
    near = abs(x - c) <= t
    return {"ge": x > c or near, "gt": x > c and not near, "le": x < c or near, "lt": x < c and not near,
            "eq": near, "ne": not near}[rel]


def expected_proportion(arr, thresholds, rel, tv, red):
    """share of non-NaN data in the event category, per kept index and threshold (independent Python count)"""
    arr = np.asarray(arr, dtype=float)
    nx, ny = arr.shape
    nt = len(thresholds)
    disc = np.full((nx, ny, nt), np.nan)
    for i in range(nx):
        for j in range(ny):
            for k, t in enumerate(thresholds):
                if not (math.isnan(arr[i, j]) or math.isnan(t)):
                    disc[i, j, k] = 1.0 if holds(rel, arr[i, j], t, tv) else 0.0
    axes = {None: (0, 1), "all": (0, 1)}.get(red if not isinstance(red, list) else None, None)
    if isinstance(red, list):
        axes = (0,) if red[0] == "x" else (1,)
    with np.errstate(all="ignore"):
        import warnings
        with warnings.catch_warnings():
            warnings.simplefilter("ignore")
            return np.nanmean(disc, axis=axes)


# ----------------------------------------------------------------------------- replay
def replay(ctx, payload):
    case = payload["case"]
    ctx2 = core.Ctx("C08", "quick", 0)

    def unfl(v):
        if isinstance(v, list):
            return [unfl(x) for x in v]
        if isinstance(v, str) and v in ("nan", "inf", "-inf"):
            return float(v)
        return v
    if case.get("big_events"):
        return not check_big_events(ctx2, "replay", case)
    if "fn" in case:
        c = {k: unfl(v) for k, v in case.items()}
        c["malformed"] = None
        s = core.run_driver("C08S", [spec_op(c)])[0]
        return not oracle_disc_case(ctx2, "replay", c, s) or bool(ctx2.failures)
    if "f" in case and "dthr" in case:
        c = {k: unfl(v) for k, v in case.items()}
        s = core.run_driver("C08S", [spec_driver_op(c)])[0]
        res = run_table_case(c)
        check_table_against(ctx2, "replay", "property", c, res, s, spec=True)
        check_table_relations(ctx2, "replay", c, res)
        return bool(ctx2.failures)
    if "fcst_events" in case and "edtype" in case:
        d = {k: unfl(v) for k, v in case.items()}
        return not check_events_dtype(ctx2, "replay", d, core.run_driver("C08S", [events_spec_op(d)])[0])
    if "thresholds" in case and "pfn" in case:
        return not check_proportion_dtype(ctx2, "replay", {k: unfl(v) for k, v in case.items()})
    if "thresholds" in case:
        from scores.processing import binary_discretise_proportion
        arr = np.array(unfl(case["data"]), dtype=float)
        rel = rel_of(case["mode"])
        tol = case["tol"]
        tv = 0.0 if tol in ("omit", None) else float(tol)
        kw = {} if tol == "omit" else {"abs_tolerance": tol}
        da = xr.DataArray(arr, dims=["x", "y"])
        try:
            with np.errstate(all="ignore"):
                out = binary_discretise_proportion(da, unfl(case["thresholds"]), py_mode(case["mode"]),
                                                   reduce_dims=case["reduce_dims"], **kw)
        except Exception:  # noqa: BLE001
            return True
        exp = expected_proportion(arr, unfl(case["thresholds"]), rel, tv, case["reduce_dims"])
        got = out.transpose(*[d for d in ("x", "y", "threshold") if d in out.dims]).values
        return got.shape != exp.shape or not all(core.close_ff(a, b) for a, b in zip(got.ravel(), exp.ravel()))
    return True
