"""C08 — discretisation and contingency counts classify every valid pair exactly once."""
from __future__ import annotations

import itertools
import math
import operator

import numpy as np
import xarray as xr

from sv import core

PROPERTY = "C08"
GEN = ["Discretise", "Contingency"]
PROPS = ["ScoresVerif/Props/C08.lean"]
DRIVER_DEPS = ["ScoresVerif.Driver.C08Spec", "ScoresVerif.Driver.C08"]
LEVEL = "proof"
TRUSTED = ["SV.PyOp / SV.PyMode (Model/Discretise.lean) as the meaning of Python's operator functions, `in`, `is` on the mode argument",
           "Model/C08.lean: list-level model of .sum(dim)/.mean(dim) (skipna) and of the threshold loop of binary_discretise",
           "xarray broadcasting / reductions (compared, not modelled beyond flattening)"]
ASSUMPTIONS = ["data, thresholds and tolerances are dyadic (k/4) so every comparison and threshold±tolerance is exact in float64",
               "+inf / -inf are valid, comparable values: contingency counts (theorems hold for every Fl) and the order relations / unequal "
               "values of discretisation (theorem disc_eq_specX, Spec.discX) cover them; only '==' / '!=' between two EQUAL infinities "
               "is outside the property's domain (notes/C08.md N-C08-1; model and implementation are still compared on it)",
               "Dataset inputs and dask arrays are not generated"]
MANIFEST = dict(
    level="proof",
    text="Kernel-checked Lean theorems about definitions regenerated from the source on every run (mode tables and the if/elif "
         "relation chain of comparative_discretise incl. abs_tolerance sanitising; event expressions and threshold/operator "
         "fallbacks of ThresholdEventOperator; the four boolean maps of BinaryContingencyManager): relation table for all 6 "
         "modes x every tolerance >= 0 on finite data, string spelling = operator spelling for all values, NaN -> NaN, "
         "complementary relations sum to 1, guards; events = op(x, thr) for EVERY supplied threshold (0, negative) and each "
         "operator; each count = direct count, tp+fp+fn+tn = total = #pairs valid in both, maps disjoint and covering, counts "
         "additive under concatenation (kept counts sum to reduced counts) for lists of any length; proportion = share. "
         "Tied to the code by the translator, a differential correspondence and an independent oracle (Lean Spec + direct "
         "Python counting + relations between implementation runs).",
    note="Trusted: Lean kernel; propext/Classical.choice/Quot.sound; py2lean + tools/gen/Discretise.py; SV.Fl (IEEE minus rounding, "
         "overflow, signed zero); SV.PyOp/PyMode as the meaning of operator functions and of `in`/`is` on the mode; the "
         "list-level hand model (Model/C08.lean) of .sum/.mean(skipna), of the threshold loop, monotonicity guard and total = "
         "tp+tn+fp+fn, which is compared with the implementation, not translated. Not modelled: Dataset/dask inputs, attrs, "
         "autosqueeze bookkeeping (shape only compared), gather_dimensions (C01); '=='/'!=' between two equal infinities is compared "
         "but outside the theorems (|inf-inf| is NaN, so '==' of equal infinities is 0); every other use of +inf/-inf (data, "
         "thresholds, event thresholds with order relations) is inside.",
    technique="Lean 4 theorems over translator-regenerated definitions + differential correspondence + property oracle "
              "(when the source leaves the translatable subset the generator substitutes the hand-written fallback model "
              "tools/gen/_fallback_*.lean for that definition, records it as inapplicable, and the correspondence carries it)",
    design="6/C08")
RULE = ("cases drawn from a dyadic pool with 50 % of data values placed on / within / just outside tolerance of a threshold, "
        "NaN in every slot, +inf / -inf among data, discretisation thresholds, forecasts, observations (half of the table cases) and "
        "event thresholds (order relations only), all 12 mode spellings, thresholds 0 and negative for the event operator; distinct = distinct "
        "canonical input; non-trivial = at least one non-NaN output and not in the malformed stream")

STR2OP = {">=": "ge", ">": "gt", "<=": "le", "<": "lt", "==": "eq", "!=": "ne"}
OP2STR = {v: k for k, v in STR2OP.items()}
COMPL = {"ge": "lt", "lt": "ge", "gt": "le", "le": "gt", "eq": "ne", "ne": "eq"}
NAN = float("nan")


# ----------------------------------------------------------------------------- helpers
def py_mode(m):
    if m["k"] == "str":
        return m["v"]
    if m["k"] == "op":
        return getattr(operator, m["v"])
    return None


def rel_of(m):
    """relation name of a valid mode descriptor, else None"""
    if m["k"] == "str":
        return STR2OP.get(m["v"])
    if m["k"] == "op":
        return m["v"] if m["v"] in COMPL else None
    return None


def fls(xs):
    return [core.fl_str(x) for x in xs]


def fresh(s):
    return "".join(list(s))


def as_num(x):
    """python int for integral values half of the time is decided by the caller; here: exact float"""
    return float(x)


def run_disc(fn_name, data, comp, mode, tol, scalar_comp=False):
    """call the real discretisation; returns ('ok', matrix[data][comp]) | ('err', class)"""
    from scores.processing import binary_discretise, comparative_discretise
    d = xr.DataArray(np.array(data, dtype=float), dims=[fresh("x")])
    kw = {} if tol == "omit" else {"abs_tolerance": tol}
    try:
        with np.errstate(all="ignore"):
            if fn_name == "comparative":
                c = comp[0] if scalar_comp else xr.DataArray(np.array(comp, dtype=float), dims=[fresh("c")])
                out = comparative_discretise(d, c, py_mode(mode), **kw)
                if scalar_comp:
                    out = out.expand_dims("c", axis=-1)
                vals = out.transpose("x", "c").values
            else:
                th = comp[0] if scalar_comp else list(comp)
                out = binary_discretise(d, th, py_mode(mode), **kw)
                if "threshold" not in out.dims:
                    if not (scalar_comp or len(comp) == 1):
                        return ("err", "shape: threshold dim missing")
                    out = out.expand_dims("threshold", axis=-1)
                elif scalar_comp:
                    return ("err", "shape: threshold dim not squeezed for a scalar threshold")
                vals = out.transpose("x", "threshold").values
        return ("ok", np.asarray(vals, dtype=float).tolist())
    except Exception as ex:  # noqa: BLE001
        return ("err", core.exc_class(ex))


def same_matrix(impl, model, allow_none=False):
    """impl: nested floats; model: nested protocol strings (None = outside the spec's domain)"""
    if len(impl) != len(model):
        return False
    for ri, rm in zip(impl, model):
        if len(ri) != len(rm):
            return False
        for a, b in zip(ri, rm):
            if b is None:
                if allow_none:
                    continue
                return False
            if not core.close(a, b, rtol=0, atol=0):
                return False
    return True


def disc_result_matches(res, model):
    if "err" in model:
        return res[0] == "err" and res[1] == model["err"]
    return res[0] == "ok" and same_matrix(res[1], model["ok"])


# ----------------------------------------------------------------------------- generators
def gen_disc_case(rng, malformed_ok=True, finite_only=False, infs=False):
    """infs=True: the extended reals — +inf / -inf among the data (25 %) and as lowest / highest threshold
    (valid, comparable values; the threshold list stays monotone and never repeats an infinity)"""
    nthr = rng.choice([1, 1, 2, 3])
    base = sorted(core.dyadic(rng, -4, 4) for _ in range(nthr))
    if rng.random() < 0.25:
        base[rng.randrange(nthr)] = 0.0
        base.sort()
    if nthr > 1 and rng.random() < 0.25:
        base[1] = base[0]                       # repeated threshold (still monotone)
    fin_base = list(base)
    if infs:
        r = rng.random()
        if r < 0.3:
            base[0] = -math.inf
        elif r < 0.6:
            base[-1] = math.inf
        elif r < 0.7 and nthr > 1:
            base[0], base[-1] = -math.inf, math.inf
    tol = rng.choice(["omit", None, 0, 0.0, 0.25, 0.5, 1.0, 1, 2.0])
    tv = 0.0 if tol in ("omit", None) else float(tol)
    n = rng.randint(1, 6)
    data = []
    for _ in range(n):
        r = rng.random()
        if infs and rng.random() < 0.25:
            data.append(rng.choice([math.inf, -math.inf]))
        elif r < 0.5:
            c = rng.choice(fin_base)
            data.append(c + rng.choice([0, tv, -tv, tv + 0.25, -tv - 0.25, tv - 0.25, -tv + 0.25, 0.25, -0.25]))
        elif r < 0.65:
            data.append(NAN)
        elif r < 0.68 and not finite_only:
            data.append(rng.choice([math.inf, -math.inf]))
        else:
            data.append(core.dyadic(rng, -5, 5))
    kind = rng.choice(["str", "op"])
    name = rng.choice(list(COMPL))
    mode = {"k": "str", "v": OP2STR[name]} if kind == "str" else {"k": "op", "v": name}
    thr = list(base)
    malformed = None
    if malformed_ok:
        r = rng.random()
        if r < 0.05:
            mode = rng.choice([{"k": "str", "v": "=>"}, {"k": "str", "v": "ge"}, {"k": "op", "v": "add"},
                               {"k": "none"}, {"k": "str", "v": ""}])
            malformed = "mode"
        elif r < 0.10:
            tol = rng.choice([-0.25, -1.0, -1])
            malformed = "tolerance"
        elif r < 0.14 and nthr > 1:
            thr = list(reversed(base)) if base[0] != base[-1] else thr
            malformed = "thresholds-order"
        elif r < 0.18:
            thr[rng.randrange(nthr)] = NAN
            malformed = "thresholds-nan"
        elif r < 0.20 and not finite_only:
            thr[-1] = math.inf
            malformed = "thresholds-inf"
    scalar = nthr == 1 and rng.random() < 0.5
    fn = rng.choice(["comparative", "binary"])
    return {"fn": fn, "data": data, "comp": thr, "mode": mode, "tol": tol, "scalar": scalar, "malformed": malformed}


def disc_driver_op(case):
    tol = case["tol"]
    t = None if tol in ("omit", None) else core.fl_str(tol)
    if case["fn"] == "comparative":
        return {"op": "c08.cmp", "args": {"data": fls(case["data"]), "comparison": fls(case["comp"]),
                                          "mode": case["mode"], "tol": t}}
    return {"op": "c08.bin", "args": {"data": fls(case["data"]), "thresholds": fls(case["comp"]),
                                      "mode": case["mode"], "tol": t}}


def case_scalar_value(case):
    """scalar comparison: pass an int when integral (the code accepts float or int)"""
    return case


def run_disc_case(case):
    comp = list(case["comp"])
    if case["scalar"] and float(comp[0]).is_integer() and case.get("int_scalar"):
        comp = [int(comp[0])]
    return run_disc(case["fn"], case["data"], comp, case["mode"], case["tol"], case["scalar"])


def gen_pairs(rng, binary=False, inf_ok=True):
    """(fcst, obs) as 2-D arrays over dims a, b (obs sometimes only over b: broadcast)"""
    na, nb = rng.choice([1, 2, 3]), rng.choice([1, 2, 3, 4])
    pool = [0.0, 1.0] if binary else None
    thr = rng.choice([0, 0.0, 0, -1.0, -0.5, -2, 0.5, 1.0, 1, 2.25, 0.25])

    # +inf / -inf are VALID, comparable values (inf > thr holds, -inf > thr does not): a pair containing one is
    # classified like any other.  Half of the cases carry infinities (in the forecast, the observation or both).
    pinf_f, pinf_o = (0.0, 0.0) if (binary or not inf_ok or rng.random() < 0.5) else \
        rng.choice([(0.2, 0.0), (0.0, 0.2), (0.2, 0.2), (0.5, 0.5)])

    def val(pn, pi):
        r = rng.random()
        if r < pn:
            return NAN
        if binary:
            return rng.choice(pool)
        if rng.random() < pi:
            return rng.choice([math.inf, -math.inf])
        if r < pn + 0.35:
            return float(thr) + rng.choice([0, 0, 0.25, -0.25])
        return core.dyadic(rng, -3, 3)
    pf, po = rng.choice([0.0, 0.15, 0.4]), rng.choice([0.0, 0.15, 0.4])
    f = [[val(pf, pinf_f) for _ in range(nb)] for _ in range(na)]
    obs_1d = rng.random() < 0.2
    o = [val(po, pinf_o) for _ in range(nb)] if obs_1d else [[val(po, pinf_o) for _ in range(nb)] for _ in range(na)]
    if rng.random() < 0.3 and not obs_1d:      # forecast == observation collisions
        i, j = rng.randrange(na), rng.randrange(nb)
        o[i][j] = f[i][j]
    return f, o, obs_1d, thr


def xr_pairs(f, o, obs_1d):
    fx = xr.DataArray(np.array(f, dtype=float), dims=[fresh("a"), fresh("b")])
    ox = xr.DataArray(np.array(o, dtype=float), dims=[fresh("b")] if obs_1d else [fresh("a"), fresh("b")])
    return fx, ox


def flat_pairs(f, o, obs_1d):
    ff, oo = [], []
    for i, row in enumerate(f):
        for j, v in enumerate(row):
            ff.append(v)
            oo.append(o[j] if obs_1d else o[i][j])
    return ff, oo


def counts_of(man, **kw):
    """tp, tn, fp, fn, total (floats) of a manager with everything reduced, or per kept index"""
    cd = man.get_counts() if not kw else man.transform(**kw).get_counts()
    return {k[:-6]: np.asarray(v.values, dtype=float) for k, v in cd.items()}


def gen_table_case(rng):
    f, o, obs_1d, thr = gen_pairs(rng)
    op = rng.choice([None, "ge", "gt", "le", "lt", "ge", "gt", "eq", "ne"])
    use_thr = rng.random() < 0.85
    custom = rng.random() < 0.3
    dthr = rng.choice([0.5, -1.0, 0.0, 2]) if custom else 0.001
    dop = rng.choice(["gt", "le", "lt"]) if custom else "ge"
    if rng.random() < 0.06 and op not in ("eq", "ne"):
        # an infinite event threshold with an order relation is well defined ('=='/'!=' of equal infinities: N-C08-1, excluded)
        thr = rng.choice([math.inf, -math.inf])
        use_thr = True
        if rng.random() < 0.5:
            f[0][0] = thr
    return {"f": f, "o": o, "obs_1d": obs_1d, "thr": thr if use_thr else None, "op": op,
            "dthr": dthr, "dop": dop, "custom": custom}


def run_table_case(case):
    """returns dict with events, maps, counts from the implementation, or ('err', class)"""
    from scores.categorical import BinaryContingencyManager, ThresholdEventOperator
    fx, ox = xr_pairs(case["f"], case["o"], case["obs_1d"])
    teo = ThresholdEventOperator(default_event_threshold=case["dthr"], default_op_fn=getattr(operator, case["dop"])) \
        if case["custom"] else ThresholdEventOperator()
    kw = {}
    if case["thr"] is not None:
        kw["event_threshold"] = case["thr"]
    if case["op"] is not None:
        kw["op_fn"] = getattr(operator, case["op"])
    try:
        with np.errstate(all="ignore"):
            man = teo.make_contingency_manager(fx, ox, **kw)
            fe, oe = teo.make_event_tables(fx, ox, **kw)
            man2 = BinaryContingencyManager(fe, oe)      # second route to the same table
            fe, oe = xr.broadcast(fe, oe)
            mfe, moe = xr.broadcast(man.fcst_events, man.obs_events)
            res = {"counts": {k: float(v) for k, v in counts_of(man).items()},
                   "fe": np.asarray(mfe.transpose("a", "b").values, dtype=float).ravel().tolist(),
                   "oe": np.asarray(moe.transpose("a", "b").values, dtype=float).ravel().tolist(),
                   "fe_t": np.asarray(fe.transpose("a", "b").values, dtype=float).ravel().tolist(),
                   "oe_t": np.asarray(oe.transpose("a", "b").values, dtype=float).ravel().tolist()}
            for cell in ("tp", "tn", "fp", "fn"):
                res["map_" + cell] = np.asarray(getattr(man, cell).transpose("a", "b").values, dtype=float).ravel().tolist()
            keep_a = counts_of(man, preserve_dims=[fresh("a")])
            keep_b = counts_of(man, reduce_dims=[fresh("a")])
            res["keep_a"] = {k: v.tolist() for k, v in keep_a.items()}
            res["keep_b"] = {k: v.tolist() for k, v in keep_b.items()}
            allp = counts_of(man, preserve_dims="all")
            res["keep_all_sum"] = {k: float(np.nansum(v)) for k, v in allp.items()}
            tab = man.get_table()
            res["table"] = {str(k)[:-6]: float(tab.sel(contingency=k)) for k in tab["contingency"].values}
            tr = man.transform()
            res["transform_counts"] = {k[:-6]: float(v) for k, v in tr.get_counts().items()}
            res["tables_route_counts"] = {k: float(v) for k, v in counts_of(man2).items()}
            res["tables_route_keep_a"] = {k: v.tolist() for k, v in counts_of(man2, preserve_dims=[fresh("a")]).items()}
        return res
    except Exception as ex:  # noqa: BLE001
        return ("err", core.exc_class(ex) + ": " + str(ex)[:120])


def table_driver_op(case):
    ff, oo = flat_pairs(case["f"], case["o"], case["obs_1d"])
    return {"op": "c08.table", "args": {"fcst": fls(ff), "obs": fls(oo),
                                        "thr": None if case["thr"] is None else core.fl_str(case["thr"]),
                                        "op": case["op"], "dthr": core.fl_str(case["dthr"]), "dop": case["dop"]}}


def spec_driver_op(case):
    """direct counting with the SUPPLIED threshold and operator (defaults only when nothing was supplied)"""
    ff, oo = flat_pairs(case["f"], case["o"], case["obs_1d"])
    thr = case["dthr"] if case["thr"] is None else case["thr"]
    op = case["dop"] if case["op"] is None else case["op"]
    return {"op": "c08.countspec", "args": {"fcst": fls(ff), "obs": fls(oo), "thr": core.fl_str(thr), "op": op}}


def py_count(case):
    """independent direct count in Python"""
    ff, oo = flat_pairs(case["f"], case["o"], case["obs_1d"])
    thr = case["dthr"] if case["thr"] is None else case["thr"]
    op = getattr(operator, case["dop"] if case["op"] is None else case["op"])
    c = {"tp": 0, "tn": 0, "fp": 0, "fn": 0, "total": 0}
    for a, b in zip(ff, oo):
        if math.isnan(a) or math.isnan(b):
            continue
        c["total"] += 1
        ea, eb = bool(op(a, thr)), bool(op(b, thr))
        c["tp" if ea and eb else "tn" if not ea and not eb else "fp" if ea else "fn"] += 1
    return c


def table_tags(case):
    t = {"op": case["op"] or "default", "thr": "none" if case["thr"] is None else
         ("zero" if case["thr"] == 0 else "negative" if case["thr"] < 0 else "positive")}
    if case["thr"] is not None and case["thr"] == 0:
        t["defect"] = "F4"
    if case["thr"] is not None and math.isinf(case["thr"]):
        t["infinite"] = "threshold"
    elif any(math.isinf(v) for v in sum(case["f"], [])) or \
            any(math.isinf(v) for v in (case["o"] if case["obs_1d"] else sum(case["o"], []))):
        t["infinite"] = "data"
    return t


# ----------------------------------------------------------------------------- checks on one case
def check_table_against(ctx, batch, kind, case, res, model, spec=False):
    """compare the implementation's events / maps / counts with `model` (driver table or direct-count spec)"""
    tags = table_tags(case)
    desc = {k: case[k] for k in ("f", "o", "obs_1d", "thr", "op", "dthr", "dop", "custom")}
    if isinstance(res, tuple):
        ctx.fail(batch, kind, "ThresholdEventOperator.make_contingency_manager", "exception", desc,
                 observed=res[1], expected="a contingency manager", tags=tags)
        return False
    ok = True

    def bad(site, sig, obs, exp, thm=None):
        nonlocal ok
        ok = False
        ctx.fail(batch, kind, site, sig, desc, observed=obs, expected=exp, tags=tags, theorem=thm)
    pairs = [("fe", "fcst_events"), ("oe", "obs_events")]
    pairs_t = [("fe_t", "fcst_events" if spec else "fcst_events_tables"), ("oe_t", "obs_events" if spec else "obs_events_tables")]
    for k, mk in pairs:
        if not all(core.close(a, b, 0, 0) for a, b in zip(res[k], model[mk])) or len(res[k]) != len(model[mk]):
            bad("ThresholdEventOperator.make_contingency_manager", "events-differ", res[k], model[mk], "events_eq_op")
            break
    for k, mk in pairs_t:
        if not all(core.close(a, b, 0, 0) for a, b in zip(res[k], model[mk])) or len(res[k]) != len(model[mk]):
            bad("ThresholdEventOperator.make_event_tables", "events-differ", res[k], model[mk], "events_tables_eq_op")
            break
    for cell in ("tp", "tn", "fp", "fn", "total"):
        exp = model[cell]
        for where in ("counts", "table", "transform_counts", "keep_all_sum", "tables_route_counts"):
            got = res[where].get(cell)
            if got is None or not core.close(got, exp if isinstance(exp, str) else core.Fraction(exp), 0, 0):
                site = "make_event_tables+BinaryContingencyManager.counts" if where == "tables_route_counts" \
                    else "BinaryContingencyManager." + where
                bad(site, "count-differs:" + cell, got, exp, "threshold_counts_eq_direct")
                break
    return ok


def check_table_relations(ctx, batch, case, res):
    """laws between implementation outputs: partition, direct indicator maps, additivity along a dimension"""
    if isinstance(res, tuple):
        return
    tags = table_tags(case)
    desc = {k: case[k] for k in ("f", "o", "obs_1d", "thr", "op", "dthr", "dop", "custom")}
    c = res["counts"]
    ff, oo = flat_pairs(case["f"], case["o"], case["obs_1d"])
    nvalid = sum(1 for a, b in zip(ff, oo) if not (math.isnan(a) or math.isnan(b)))
    if not (c["tp"] + c["tn"] + c["fp"] + c["fn"] == c["total"] == nvalid):
        ctx.fail(batch, "property", "BinaryContingencyManager.counts", "partition", desc, observed=c,
                 expected={"total": nvalid}, tags=tags, theorem="total_eq_valid_pairs")
    pc = py_count(case)
    if any(c[k] != pc[k] for k in pc):
        ctx.fail(batch, "property", "BinaryContingencyManager.counts", "direct-count", desc, observed=c, expected=pc,
                 tags=tags, theorem="threshold_counts_eq_direct")
    # maps: NaN exactly on invalid pairs, otherwise exactly one map is 1
    for i, (a, b) in enumerate(zip(ff, oo)):
        cells = [res["map_" + k][i] for k in ("tp", "tn", "fp", "fn")]
        if math.isnan(a) or math.isnan(b):
            good = all(math.isnan(x) for x in cells)
        else:
            good = sorted(cells) == [0.0, 0.0, 0.0, 1.0]
        if not good:
            ctx.fail(batch, "property", "BinaryContingencyManager.maps", "maps-not-a-partition", desc,
                     observed={"index": i, "cells": cells}, expected="exactly one 1 (or all NaN on an invalid pair)",
                     tags=tags, theorem="maps_partition")
            break
    # counts kept along dimension a = direct count of each row (both routes to the table)
    for keep in ("keep_a", "tables_route_keep_a"):
        for i, row in enumerate(case["f"]):
            sub = dict(case)
            sub.update({"f": [row], "o": case["o"] if case["obs_1d"] else [case["o"][i]]})
            pr = py_count(sub)
            got = {k: res[keep][k][i] for k in pr}
            if any(got[k] != pr[k] for k in pr):
                ctx.fail(batch, "property", "BinaryContingencyManager.transform", "kept-direct-count:" + keep, desc,
                         observed={"index": i, "counts": got}, expected=pr, tags=tags, theorem="threshold_counts_eq_direct")
                break
    # counts kept along a dimension sum to the fully reduced counts
    for keep in ("keep_a", "keep_b"):
        for cell in ("tp", "tn", "fp", "fn", "total"):
            s = float(np.sum(res[keep][cell]))
            if s != c[cell]:
                ctx.fail(batch, "property", "BinaryContingencyManager.transform", "kept-counts-do-not-sum:" + cell, desc,
                         observed={keep: res[keep][cell]}, expected=c[cell], tags=tags, theorem="counts_flatten")
                break


# ----------------------------------------------------------------------------- correspondence
def correspondence(ctx):
    rng = ctx.rng
    # A/B: comparative_discretise and binary_discretise vs the translated relation chain
    cases = []
    for _ in range(ctx.n(350, 6000)):
        c = gen_disc_case(rng)
        c["int_scalar"] = rng.random() < 0.5
        cases.append(c)
    # every spelling with tolerance on a fixed boundary grid (exhaustive small part)
    grid = [-1.0, -0.75, -0.5, -0.25, 0.0, 0.25, 0.5, 0.75, 1.0, NAN, math.inf, -math.inf]
    for name in COMPL:
        for kind in ("str", "op"):
            for tol in ("omit", 0.25, 0.5):
                mode = {"k": "str", "v": OP2STR[name]} if kind == "str" else {"k": "op", "v": name}
                cases.append({"fn": "comparative", "data": grid, "comp": [0.0, 0.25, NAN, math.inf], "mode": mode, "tol": tol,
                              "scalar": False, "malformed": None})
    ctx.exhaustive.append("12 mode spellings x tolerance {none, 1/4, 1/2} x 12 data values x 4 comparison values")
    model = core.run_driver("C08", [disc_driver_op(c) for c in cases])
    for c, m in zip(cases, model):
        res = run_disc_case(c)
        desc = {k: c[k] for k in ("fn", "data", "comp", "mode", "tol", "scalar")}
        ctx.case("discretise-vs-translated-chain", desc, nontrivial=c["malformed"] is None and res[0] == "ok")
        ctx.tag("malformed:" + str(c["malformed"]) if c["malformed"] else "mode:" + str(rel_of(c["mode"])) + ":" + c["mode"]["k"])
        if not disc_result_matches(res, m):
            ctx.fail("discretise-vs-translated-chain", "correspondence", "processing." + c["fn"] + "_discretise", "value",
                     desc, observed=res, expected=m, tags={"mode": str(c["mode"].get("v")), "malformed": str(c["malformed"])})
    # C: proportion
    from scores.processing import binary_discretise_proportion
    pcs, pops = [], []
    for _ in range(ctx.n(80, 1500)):
        c = gen_disc_case(rng, malformed_ok=False)
        c["fn"] = "binary"
        if rng.random() < 0.15:
            c["data"] = [NAN] * len(c["data"])
        pcs.append(c)
        tol = c["tol"]
        pops.append({"op": "c08.prop", "args": {"data": fls(c["data"]), "thresholds": fls(c["comp"]), "mode": c["mode"],
                                                "tol": None if tol in ("omit", None) else core.fl_str(tol)}})
    pm = core.run_driver("C08", pops)
    for c, m in zip(pcs, pm):
        d = xr.DataArray(np.array(c["data"], dtype=float), dims=[fresh("x")])
        kw = {} if c["tol"] == "omit" else {"abs_tolerance": c["tol"]}
        try:
            with np.errstate(all="ignore"):
                out = binary_discretise_proportion(d, list(c["comp"]), py_mode(c["mode"]), **kw)
            got = ("ok", np.asarray(out.values, dtype=float).ravel().tolist())
        except Exception as ex:  # noqa: BLE001
            got = ("err", core.exc_class(ex))
        desc = {k: c[k] for k in ("data", "comp", "mode", "tol")}
        ctx.case("proportion-vs-model", desc)
        good = ("ok" in m and got[0] == "ok" and len(got[1]) == len(m["ok"]) and all(core.close(a, b) for a, b in zip(got[1], m["ok"]))) \
            or ("err" in m and got == ("err", m["err"]))
        if not good:
            ctx.fail("proportion-vs-model", "correspondence", "processing.binary_discretise_proportion", "value", desc,
                     observed=got, expected=m, tags={"mode": str(c["mode"].get("v"))})
    # D: ThresholdEventOperator -> events, maps, counts vs translated events + translated maps + nansum
    tcs = [gen_table_case(rng) for _ in range(ctx.n(150, 3000))]
    tm = core.run_driver("C08", [table_driver_op(c) for c in tcs])
    for c, m in zip(tcs, tm):
        res = run_table_case(c)
        ctx.case("event-operator-vs-translated-model", {k: c[k] for k in ("f", "o", "obs_1d", "thr", "op", "dthr", "dop")})
        ctx.tag("thr:" + table_tags(c)["thr"])
        check_table_against(ctx, "event-operator-vs-translated-model", "correspondence", c, res, m)
    # E: BinaryContingencyManager on event arrays (incl. non-binary values) vs translated maps + nansum
    from scores.categorical import BinaryContingencyManager
    ecs, eops = [], []
    for _ in range(ctx.n(80, 1500)):
        n = rng.randint(1, 8)
        pool = [0.0, 1.0, 0.0, 1.0, NAN] + ([0.5, 2.0, -1.0] if rng.random() < 0.3 else [])
        f = [rng.choice(pool) for _ in range(n)]
        o = [rng.choice(pool) for _ in range(n)]
        ecs.append((f, o))
        eops.append({"op": "c08.etable", "args": {"fcst": fls(f), "obs": fls(o)}})
    em = core.run_driver("C08", eops)
    for (f, o), m in zip(ecs, em):
        ctx.case("binary-manager-vs-translated-maps", {"fcst_events": f, "obs_events": o})
        man = BinaryContingencyManager(xr.DataArray(f, dims=["k"]), xr.DataArray(o, dims=["k"]))
        cd = {k: float(v) for k, v in counts_of(man).items()}
        for cell in ("tp", "tn", "fp", "fn", "total"):
            bad = not core.close(cd[cell], m[cell], 0, 0)
            if cell != "total":
                mp = np.asarray(getattr(man, cell).values, dtype=float).tolist()
                bad = bad or not all(core.close(a, b, 0, 0) for a, b in zip(mp, m["map_" + cell]))
            if bad:
                ctx.fail("binary-manager-vs-translated-maps", "correspondence", "BinaryContingencyManager." + cell, "value",
                         {"fcst_events": f, "obs_events": o}, observed=cd, expected=m, tags={"cell": cell})
                break


# ----------------------------------------------------------------------------- the property itself
def oracle_disc_case(ctx, batch, c, spec_rows, res=None):
    """implementation vs the hand-written definition (Lean Spec), complement law, spelling law"""
    desc = {k: c[k] for k in ("fn", "data", "comp", "mode", "tol", "scalar")}
    rel = rel_of(c["mode"])
    tags = {"mode": str(c["mode"]["v"]), "rel": rel, "fn": c["fn"]}
    if any(math.isinf(v) for v in list(c["data"]) + list(c["comp"])):
        tags["infinite"] = "yes"
    res = res or run_disc_case(c)
    site = "processing." + c["fn"] + "_discretise"
    if res[0] != "ok":
        ctx.fail(batch, "property", site, "exception", desc, observed=res[1], expected="0/1/NaN array", tags=tags)
        return False
    ok = True
    if not same_matrix(res[1], spec_rows, allow_none=True):
        ctx.fail(batch, "property", site, "relation-table", desc, observed=res[1], expected=spec_rows, tags=tags,
                 theorem="mode_table_" + rel)
        ok = False
    # other spelling of the same relation: identical result
    other = dict(c)
    other["mode"] = {"k": "op", "v": rel} if c["mode"]["k"] == "str" else {"k": "str", "v": OP2STR[rel]}
    r2 = run_disc_case(other)
    if r2[0] != "ok" or not all(core.close_ff(a, b, 0, 0) for ra, rb in zip(res[1], r2[1]) for a, b in zip(ra, rb)):
        ctx.fail(batch, "property", site, "spelling-differs", desc, observed=r2, expected=res[1], tags=tags,
                 theorem="string_eq_operator_" + rel)
        ok = False
    # complementary relation: sums to 1 on non-NaN, NaN stays NaN
    comp = dict(c)
    comp["mode"] = {"k": c["mode"]["k"], "v": COMPL[rel] if c["mode"]["k"] == "op" else OP2STR[COMPL[rel]]}
    r3 = run_disc_case(comp)
    good = r3[0] == "ok"
    if good:
        for i, x in enumerate(c["data"]):
            for j, t in enumerate(c["comp"]):
                a, b = res[1][i][j], r3[1][i][j]
                if math.isnan(x) or math.isnan(t):
                    good = good and math.isnan(a) and math.isnan(b)
                elif rel in ("eq", "ne") and math.isinf(x) and x == t:
                    continue                      # '==' / '!=' between equal infinities: N-C08-1, outside the domain
                else:
                    good = good and (a + b == 1.0) and a in (0.0, 1.0)
    if not good:
        ctx.fail(batch, "property", site, "complement-not-one", desc, observed={"mode": res[1], "complement": r3},
                 expected="sum 1 on non-NaN, NaN on NaN", tags=tags, theorem="complementary_sum_one")
        ok = False
    return ok


def spec_op(c):
    tol = c["tol"]
    return {"op": "c08.specx", "args": {"data": fls(c["data"]), "comparison": fls(c["comp"]), "rel": rel_of(c["mode"]),
                                       "tol": "0" if tol in ("omit", None) else core.fl_str(tol)}}


def oracle(ctx, boost):
    rng = ctx.rng
    mult = 5 if boost else 1
    # 1. discretisation against its definition
    cases = []
    for _ in range(ctx.n(250, 5000) * mult):
        c = gen_disc_case(rng, malformed_ok=False, finite_only=True)
        c["int_scalar"] = rng.random() < 0.5
        cases.append(c)
    # the extended reals: +inf / -inf as data and as thresholds are valid, comparable values (Spec.discX)
    for _ in range(ctx.n(80, 1500) * mult):
        c = gen_disc_case(rng, malformed_ok=False, finite_only=True, infs=True)
        c["int_scalar"] = rng.random() < 0.5
        cases.append(c)
    xgrid = [-math.inf, -0.25, 0.0, 0.25, math.inf, NAN]
    for name in COMPL:
        for kind in ("str", "op"):
            for tol in ("omit", 0.25):
                mode = {"k": "str", "v": OP2STR[name]} if kind == "str" else {"k": "op", "v": name}
                cases.append({"fn": "comparative", "data": xgrid, "comp": [-math.inf, 0.0, math.inf, NAN], "mode": mode,
                              "tol": tol, "scalar": False, "malformed": None})
                cases.append({"fn": "binary", "data": xgrid, "comp": [-math.inf, 0.0, math.inf], "mode": mode,
                              "tol": tol, "scalar": False, "malformed": None})
    ctx.exhaustive.append("oracle: 12 spellings x tolerance {none, 1/4} x data {-inf, -1/4, 0, 1/4, inf, NaN} x thresholds "
                          "{-inf, 0, inf(, NaN)}, both functions")
    grid = [k / 4 for k in range(-8, 9)] + [NAN]
    for name in COMPL:
        for kind in ("str", "op"):
            for tol in ("omit", 0, 0.25, 0.5, 1.0):
                mode = {"k": "str", "v": OP2STR[name]} if kind == "str" else {"k": "op", "v": name}
                cases.append({"fn": "comparative", "data": grid, "comp": [-0.5, 0.0, 0.25, NAN], "mode": mode, "tol": tol,
                              "scalar": False, "malformed": None})
                cases.append({"fn": "binary", "data": grid, "comp": [-0.5, 0.0, 0.0, 0.25], "mode": mode, "tol": tol,
                              "scalar": False, "malformed": None})
    ctx.exhaustive.append("oracle: 12 spellings x 5 tolerances x 17 data values k/4 in [-2,2] + NaN x 4 thresholds, both functions")
    spec = core.run_driver("C08S", [spec_op(c) for c in cases])
    for c, s in zip(cases, spec):
        ctx.case("discretise-vs-definition", {k: c[k] for k in ("fn", "data", "comp", "mode", "tol", "scalar")})
        if any(math.isinf(v) for v in list(c["data"]) + list(c["comp"])):
            ctx.tag("oracle-disc:infinite")
        oracle_disc_case(ctx, "discretise-vs-definition", c, s)
    # 2. proportion = share of valid data in the event category
    from scores.processing import binary_discretise_proportion
    for _ in range(ctx.n(60, 1000) * mult):
        c = gen_disc_case(rng, malformed_ok=False, finite_only=True)
        rel = rel_of(c["mode"])
        tv = 0.0 if c["tol"] in ("omit", None) else float(c["tol"])
        d2 = [[rng.choice(c["data"]) for _ in range(rng.randint(1, 3))] for _ in c["data"]]
        da = xr.DataArray(np.array([r + [NAN] * (3 - len(r)) for r in d2], dtype=float), dims=[fresh("x"), fresh("y")])
        kw = {} if c["tol"] == "omit" else {"abs_tolerance": c["tol"]}
        red = rng.choice([None, [fresh("y")], [fresh("x")], "all"])
        desc = {"data": da.values.tolist(), "thresholds": c["comp"], "mode": c["mode"], "tol": c["tol"], "reduce_dims": red}
        ctx.case("proportion-is-share", desc)
        try:
            with np.errstate(all="ignore"):
                out = binary_discretise_proportion(da, list(c["comp"]), py_mode(c["mode"]), reduce_dims=red, **kw)
        except Exception as ex:  # noqa: BLE001
            ctx.fail("proportion-is-share", "property", "processing.binary_discretise_proportion", "exception", desc,
                     observed=core.exc_class(ex), expected="proportions", tags={"rel": rel})
            continue
        exp = expected_proportion(da.values, c["comp"], rel, tv, red)
        got = out.transpose(*[d for d in ("x", "y", "threshold") if d in out.dims]).values
        if got.shape != exp.shape or not all(core.close_ff(a, b) for a, b in zip(got.ravel(), exp.ravel())):
            ctx.fail("proportion-is-share", "property", "processing.binary_discretise_proportion", "proportion", desc,
                     observed=got.tolist(), expected=exp.tolist(), tags={"rel": rel}, theorem="proportion_eq_share")
    # 3. contingency counts of a threshold event operator: direct counting (Lean Spec + Python), partition, additivity
    tcs = [gen_table_case(rng) for _ in range(ctx.n(150, 3000) * mult)]
    # thresholds 0 and negative with every operator, explicitly
    for thr in (0, 0.0, -1.0, -0.25):
        for op in ("ge", "gt", "le", "lt", "eq", "ne", None):
            c = gen_table_case(rng)
            c.update({"thr": thr, "op": op})
            c["f"][0][0] = float(thr)
            tcs.append(c)
    spec = core.run_driver("C08S", [spec_driver_op(c) for c in tcs])
    for c, s in zip(tcs, spec):
        ctx.case("event-operator-vs-direct-count", {k: c[k] for k in ("f", "o", "obs_1d", "thr", "op", "dthr", "dop")})
        ctx.tag("oracle-thr:" + table_tags(c)["thr"])
        res = run_table_case(c)
        check_table_against(ctx, "event-operator-vs-direct-count", "property", c, res, s, spec=True)
        check_table_relations(ctx, "event-operator-vs-direct-count", c, res)


def holds(rel, x, c, t):
    near = abs(x - c) <= t
    return {"ge": x > c or near, "gt": x > c and not near, "le": x < c or near, "lt": x < c and not near,
            "eq": near, "ne": not near}[rel]


def expected_proportion(arr, thresholds, rel, tv, red):
    """share of non-NaN data in the event category, per kept index and threshold (independent Python count)"""
    arr = np.asarray(arr, dtype=float)
    nx, ny = arr.shape
    nt = len(thresholds)
    disc = np.full((nx, ny, nt), np.nan)
    for i in range(nx):
        for j in range(ny):
            for k, t in enumerate(thresholds):
                if not (math.isnan(arr[i, j]) or math.isnan(t)):
                    disc[i, j, k] = 1.0 if holds(rel, arr[i, j], t, tv) else 0.0
    axes = {None: (0, 1), "all": (0, 1)}.get(red if not isinstance(red, list) else None, None)
    if isinstance(red, list):
        axes = (0,) if red[0] == "x" else (1,)
    with np.errstate(all="ignore"):
        import warnings
        with warnings.catch_warnings():
            warnings.simplefilter("ignore")
            return np.nanmean(disc, axis=axes)


# ----------------------------------------------------------------------------- replay
def replay(ctx, payload):
    case = payload["case"]
    ctx2 = core.Ctx("C08", "quick", 0)

    def unfl(v):
        if isinstance(v, list):
            return [unfl(x) for x in v]
        if isinstance(v, str) and v in ("nan", "inf", "-inf"):
            return float(v)
        return v
    if "fn" in case:
        c = {k: unfl(v) for k, v in case.items()}
        c["malformed"] = None
        s = core.run_driver("C08S", [spec_op(c)])[0]
        return not oracle_disc_case(ctx2, "replay", c, s) or bool(ctx2.failures)
    if "f" in case and "dthr" in case:
        c = {k: unfl(v) for k, v in case.items()}
        s = core.run_driver("C08S", [spec_driver_op(c)])[0]
        res = run_table_case(c)
        check_table_against(ctx2, "replay", "property", c, res, s, spec=True)
        check_table_relations(ctx2, "replay", c, res)
        return bool(ctx2.failures)
    if "thresholds" in case:
        from scores.processing import binary_discretise_proportion
        arr = np.array(unfl(case["data"]), dtype=float)
        rel = rel_of(case["mode"])
        tol = case["tol"]
        tv = 0.0 if tol in ("omit", None) else float(tol)
        kw = {} if tol == "omit" else {"abs_tolerance": tol}
        da = xr.DataArray(arr, dims=["x", "y"])
        try:
            with np.errstate(all="ignore"):
                out = binary_discretise_proportion(da, unfl(case["thresholds"]), py_mode(case["mode"]),
                                                   reduce_dims=case["reduce_dims"], **kw)
        except Exception:  # noqa: BLE001
            return True
        exp = expected_proportion(arr, unfl(case["thresholds"]), rel, tv, case["reduce_dims"])
        got = out.transpose(*[d for d in ("x", "y", "threshold") if d in out.dims]).values
        return got.shape != exp.shape or not all(core.close_ff(a, b) for a, b in zip(got.ravel(), exp.ravel()))
    return True
