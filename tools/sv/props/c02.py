"""C02 — a missing value removes exactly its own forecast case, never more, never less."""
from __future__ import annotations

import math

import numpy as np
import xarray as xr

from sv import core
from sv import registry as R
from sv.props import c01

PROPERTY = "C02"
GEN = ["Contingency", "CrpsEns", "Point"]
PROPS = ["ScoresVerif/Props/C02.lean", "ScoresVerif/Props/C02Ens.lean", "ScoresVerif/Props/C02Counts.lean",
         "ScoresVerif/Props/C02Point.lean", "ScoresVerif/Props/C02Cdf.lean"]
DRIVER_DEPS = ["ScoresVerif.Driver.C01", "ScoresVerif.Driver.C13Spec", "ScoresVerif.Driver.C06", "ScoresVerif.Driver.C12"]
LEVEL = "proof"
TRUSTED = ["xarray mean/sum(skipna=True) and count as modelled by SV.nanmean / nansum / count (tied by the correspondence)"]
ASSUMPTIONS = ["cases are laid out along one case dimension (plus the score-specific dims) for the mask-vs-delete relation",
               "FSS is excluded (documented exception: a NaN grid cell is a non-event; decided under C16)"]
RULE = ("every registry function x NaN injected into forecast / observation / weights (each slot and mixed) x subsets of cases; "
        "distinct = distinct (function, inputs, mask); non-trivial = at least one case survives; plus two directed classes: "
        "ensemble scores (Brier, CRPS family) with cases whose members are ALL NaN beside a valid observation (and the reverse, "
        "partial members, NaN weights), and risk_matrix_score with all-zero severity columns / probability rows in the decision "
        "weights (hand-made or from weights_from_warning_scaling with two identical top severity columns) and a NaN in such a "
        "category — expected per-case values from the Lean Specs of C13 / C06 / C12 on the exact values; and xr.Dataset inputs "
        "with 2-3 data variables whose missing cases differ between the variables (every registry function that takes Datasets; "
        "default / preserve_dims='all' / reduce_dims requests; optional shared weights): result[v] = the DataArray result of "
        "variable v alone = that result with v's own NaN cases deleted (oracle only, with a NaN-free control run)")
MANIFEST = dict(
    level="proof",
    text="Lean theorems for lists of any length: masking cases by NaN equals deleting them for the NaN-skipping mean, sum and "
         "count, also when the NaN sits in the weights; arithmetic kernels are NaN-strict; the contingency event maps "
         "regenerated from the source give NaN (never hit/miss/non-event) for a NaN input and partition valid pairs. Every "
         "public score is tied to that reduction model (Lean nan-mean of its own preserve_dims='all' output, C01 sweep with NaN "
         "injection) and checked directly: result with NaN-masked cases = result with the cases physically deleted, and the "
         "pointwise output is NaN exactly where an input is NaN. Cases without any ensemble member / with a NaN in a "
         "zero-weight risk-matrix category are additionally checked against the exact Lean Spec value per case, the exact mean "
         "over the present cases, and the run with those cases deleted. Dataset inputs: each data variable's result equals "
         "the result of that variable alone (a NaN in one variable never removes a case from another variable).",
    note="Per-score kernels' NaN paths (ensemble member dropping, CDF propagation, Murphy/FIRM masks) are proved in their own "
         "property files (C06, C07/C17, C11, C12, C13) and only compared here. FSS excluded by the property text. Library "
         "reductions are modelled, not verified.",
    technique="Lean 4 theorems on NaN-skipping reductions + mask-vs-delete differential relation over a function registry",
    design="6/C02")

SKIP = {"fss_2d", "fss_2d_binary"}          # documented exception
K = "case"


def case_1d(rng, e, n, with_weights):
    sizes = dict({d: 1 for d in R.UNIVERSE}, **{K: n})
    return R.gen_case(rng, e, data_dims=[K], obs_dims=([] if e.no_obs else [K]), weights_dims=[K], sizes=sizes,
                      with_weights=with_weights)


def inject(rng, e, case, slot, positions):
    """NaN into `slot` ('fcst' | 'obs' | 'weights') at case positions; for score-specific dims either the
    whole case (all members / all thresholds) or a single element of it"""
    arrays = {k: v.copy(deep=True) for k, v in case.arrays.items()}
    w = None if case.weights is None else case.weights.copy(deep=True)
    how = "whole-case"
    for arg, dom, role in e.inputs:
        if (slot == "fcst" and role in ("fcst", "fcst2")) or (slot == "obs" and role == "obs"):
            a = arrays[arg]
            if a.dtype == bool:
                continue
            for p in positions:
                sel = {K: p}
                others = [str(d) for d in a.dims if str(d) != K]
                if others and e.name.startswith(("crps_cdf",)) and rng.random() < 0.5:
                    # one NaN ordinate must blank the whole CDF of that case (propagate_nans)
                    sel[others[0]] = rng.randrange(a.sizes[others[0]])
                    how = "single-ordinate"
                a.loc[{d: a[d].values[i] for d, i in sel.items()}] = np.nan
            arrays[arg] = a
    if slot == "weights" and w is not None:
        for p in positions:
            w[{K: p}] = np.nan
    return arrays, w, how


def delete(case_arrays, w, positions, n):
    keep = [i for i in range(n) if i not in positions]
    arrays = {k: (v.isel({K: keep}) if K in [str(d) for d in v.dims] else v) for k, v in case_arrays.items()}
    w2 = None if w is None else (w.isel({K: keep}) if K in [str(d) for d in w.dims] else w)
    return arrays, w2


def values(out):
    res = {}
    for var, da in out.items():
        res[var] = R.to_labelled(da)
    return res


def same_out(o1, o2, differing=None):
    """compare two output dicts label by label; dims the score adds itself (e.g. the threshold grid of the Brier
    decomposition, which contains every observation value) are compared on their common labels"""
    if set(o1) != set(o2):
        return False
    ok = True
    for var in o1:
        a, b = o1[var], o2[var]
        if set(a.dims) != set(b.dims):
            ok = False
            if differing is not None:
                differing.append(var)
            continue
        if a.shape != b.transpose(*a.dims).shape:
            a, b = xr.align(a, b, join="inner")
        d1, s1, v1 = R.to_labelled(a)
        d2, s2, v2 = R.to_labelled(b)
        if d1 != d2 or s1 != s2 or not all(core.close_ff(x, y) for x, y in zip(v1, v2)):
            ok = False
            if differing is not None:
                differing.append(var)
    return ok


INTERVAL_FUNCS = ("quantile_interval_score", "interval_score")


def f20_tags(e, differing):
    """known finding F20: the component variables of the (quantile-)interval score that do not involve a missing
    input stay non-NaN for that case (only `total` is NaN), so their aggregates still count the case"""
    if e.name in INTERVAL_FUNCS and differing and "total" not in differing:
        return {"defect": "F20", "component_only": True}
    return {}


def mask_vs_delete(ctx, ncases):
    rng = ctx.rng
    for e in R.REGISTRY:
        if e.name in SKIP:
            continue
        for ci in range(ncases):
            n = rng.choice([2, 3, 4, 5])
            case = case_1d(rng, e, n, with_weights=e.weights and rng.random() < 0.6)
            slots = ["fcst"] + ([] if e.no_obs else ["obs"]) + (["weights"] if case.weights is not None else [])
            slot = rng.choice(slots + (["mixed"] if len(slots) > 1 else []))
            npos = rng.choice([1, 1, 2, n]) if n > 1 else 1
            positions = sorted(rng.sample(range(n), min(npos, n)))
            arrays, w = {k: v for k, v in case.arrays.items()}, case.weights
            how = "whole-case"
            if slot == "mixed":
                for p in positions:
                    c2 = R.Case(arrays=arrays, weights=w, sizes=case.sizes, fcst_dims=case.fcst_dims, obs_dims=case.obs_dims,
                                weights_dims=case.weights_dims, specific=case.specific)
                    arrays, w, how = inject(rng, e, c2, rng.choice(slots), [p])
            else:
                arrays, w, how = inject(rng, e, case, slot, positions)
            desc = {"function": e.name, "n": n, "slot": slot, "positions": positions, "how": how,
                    "inputs": {k: core.canon(np.asarray(v.values).tolist()) for k, v in arrays.items()},
                    "weights": None if w is None else core.canon(np.asarray(w.values).tolist())}
            ctx.case("mask-vs-delete", desc, nontrivial=len(positions) < n)
            ctx.tag("slot:" + slot)
            ctx.tag("all-deleted" if len(positions) == n else "some-deleted")
            masked, ex1 = c01.safe_call(e, case, {}, arrays=arrays, weights=w)
            darr, dw = delete(arrays, w, positions, n)
            if len(positions) == n:
                # nothing left: the aggregate of an empty set — NaN for means; compare with the all-masked result only
                if ex1 is not None:
                    ctx.fail("mask-vs-delete", "property", e.name, "exception:" + core.exc_class(ex1), desc,
                             observed=str(ex1)[:200], expected="NaN result", tags={"function": e.name, "slot": slot})
                continue
            deleted, ex2 = c01.safe_call(e, case, {}, arrays=darr, weights=dw)
            tags = {"function": e.name, "slot": slot, "how": how}
            if ex1 is not None or ex2 is not None:
                if (ex1 is None) != (ex2 is None):
                    ctx.fail("mask-vs-delete", "property", e.name, "exception-only-one-side", desc,
                             observed=str(ex1)[:150], expected=str(ex2)[:150], tags=tags)
                continue
            differing = []
            if not same_out(masked, deleted, differing):
                tags.update(f20_tags(e, differing))
                tags["vars"] = sorted(differing)
                ctx.fail("mask-vs-delete", "property", e.name, "masked-differs-from-deleted", desc,
                         observed=core.canon(values(masked)), expected=core.canon(values(deleted)), tags=tags,
                         theorem="nanmean_mask_eq_delete")


def pointwise_nan(ctx, ncases):
    """single-case scores: the preserve_dims='all' output is NaN exactly where some input is NaN"""
    rng = ctx.rng
    for e in R.REGISTRY:
        if e.kind != "mean" or e.name in SKIP or e.out_extra_dims and e.name in ("flip_flop_index_proportion_exceeding",):
            continue
        for ci in range(ncases):
            case = R.gen_case(rng, e, with_weights=e.weights and rng.random() < 0.5, nan_p=0.25, weight_nan_p=0.15)
            out, ex = c01.safe_call(e, case, {"preserve_dims": "all"})
            desc = R.describe(case, {"preserve_dims": "all"})
            ctx.case("pointwise-nan-mask", desc)
            if ex is not None:
                ctx.fail("pointwise-nan-mask", "property", e.name, "exception:" + core.exc_class(ex), desc, observed=str(ex)[:200],
                         expected="a result", tags={"function": e.name})
                continue
            # expected mask: some input NaN at that label (score-specific dims: any element for CDF-type, all for ensembles)
            anynan = None
            for arg, dom, role in e.inputs:
                a = case.arrays[arg]
                if a.dtype == bool:
                    continue
                m = a.isnull()
                for d in e.specific:
                    if d in [str(x) for x in m.dims]:
                        if e.name.startswith("crps_cdf") or e.name == "risk_matrix_score":
                            m = m.any(d)
                        else:
                            m = m.all(d)      # ensembles: the case is missing only if every member is
                anynan = m if anynan is None else (anynan | m)
            if case.weights is not None:
                anynan = anynan | case.weights.isnull()
            if e.name == "crps_for_ensemble_fair":
                fc = case.arrays["fcst"]
                anynan = anynan | (fc.notnull().sum("member") < 2)      # F8: needs two valid members
            differing = []
            detail = {}
            for var, da in out.items():
                g2, e2 = xr.broadcast(da.isnull(), anynan)
                if not bool((g2 == e2).all()):
                    differing.append(var)
                    detail[var] = {"nan_at": core.canon(np.asarray(g2.values).tolist()),
                                   "expected_nan_at": core.canon(np.asarray(e2.values).tolist())}
            if differing:
                tags = {"function": e.name, "vars": sorted(differing)}
                tags.update(f20_tags(e, differing))
                ctx.fail("pointwise-nan-mask", "property", e.name, "nan-mask-differs", desc, observed=detail,
                         expected="NaN exactly where an input of the case is NaN", tags=tags, theorem="add_nan_iff")



# ----------------------------------------------------------------------------- missing WHOLE forecast of a case
# (a) ensembles: every member NaN while the observation is valid (and the reverse); (b) risk matrix: a NaN in a severity
# category / probability row that carries no decision weight.  Expected values: Lean Spec on the exact input VALUES
# (C13 ensemble Brier spec, C06 CRPS integral spec, C12 risk-matrix double sum), reductions in exact rationals.
from fractions import Fraction  # noqa: E402

NAN = float("nan")
ENS_SPEC = {   # registry entry -> (key of c06.spec, a, b, output variable carrying the score)
    "crps_for_ensemble": ("ecdf", None, None, "value"),
    "crps_for_ensemble_components": ("ecdf", None, None, "total"),
    "crps_for_ensemble_fair": ("fair", None, None, "value"),
    "tw_crps_for_ensemble": ("tw", 0.5, None, "value"),          # chaining max(x, 0.5) = upper tail from 0.5
    "tail_tw_crps_for_ensemble": ("tw", 0.5, None, "value"),
    "interval_tw_crps_for_ensemble": ("tw", -1.0, 2.0, "value"),
}
ENS_FUNCS = ["brier_score_for_ensemble"] + list(ENS_SPEC)
PATTERNS = ["valid", "all-members-nan", "obs-nan", "some-members-nan", "one-valid-member", "both-nan"]


def unfl(x):
    """inverse of core.canon for numbers / nested lists (replay payloads store NaN as 'nan')"""
    if isinstance(x, list):
        return [unfl(v) for v in x]
    if isinstance(x, str):
        return float(core.parse_fl(x))
    return x


def fnanmean(vals):
    v = [x for x in vals if not core.is_nan(x)]
    return sum(v, Fraction(0)) / len(v) if v else NAN


def fmul(v, w):
    if core.is_nan(v) or (isinstance(w, float) and math.isnan(w)):
        return NAN
    return v * Fraction(w)


def gen_ens(rng, fn):
    n = rng.choice([2, 3, 4, 5, 6])
    m = rng.choice([1, 2, 3, 3, 4])
    pats = [rng.choice(PATTERNS) for _ in range(n)]
    # the class under test: at least one case without any member but with an observation; usually also the reverse
    pats[rng.randrange(n)] = "all-members-nan"
    if n > 2 and rng.random() < 0.7:
        free = [i for i in range(n) if pats[i] != "all-members-nan"] or [0]
        pats[rng.choice(free)] = "obs-nan"
    if rng.random() < 0.85:
        free = [i for i in range(n) if pats[i] not in ("all-members-nan",)] or [0]
        if len([p for p in pats if p == "all-members-nan"]) < n:
            pats[rng.choice(free)] = "valid"
    fcst, obs = [], []
    for p in pats:
        o = R.draw(rng, "real")
        if fn == "brier_score_for_ensemble" and rng.random() < 0.5:
            o = rng.choice([-1.0, 0.0, 0.5, 1.0, 2.0])          # around the event thresholds: events and non-events
        ms = [R.draw(rng, "real", o) for _ in range(m)]
        if p in ("all-members-nan", "both-nan"):
            ms = [NAN] * m
        elif p == "some-members-nan" and m > 1:
            for j in rng.sample(range(m), rng.randint(1, m - 1)):
                ms[j] = NAN
        elif p == "one-valid-member" and m > 1:
            keep = rng.randrange(m)
            ms = [x if j == keep else NAN for j, x in enumerate(ms)]
        if p in ("obs-nan", "both-nan"):
            o = NAN
        fcst.append(ms)
        obs.append(o)
    w = None
    if rng.random() < 0.4:
        w = [R.draw(rng, "pos") for _ in range(n)]
        if rng.random() < 0.3:
            w[rng.randrange(n)] = NAN
    c = {"function": fn, "fcst": fcst, "obs": obs, "weights": w, "patterns": pats, "member_first": rng.random() < 0.4,
         "obs_reversed": rng.random() < 0.3}
    if fn == "brier_score_for_ensemble":
        c["thr"] = sorted(set(rng.choice([-1.0, 0.0, 0.5, 1.0, 2.0]) for _ in range(rng.choice([1, 2, 2, 3]))))
        c["fair"] = rng.choice([True, False, "omit"])
    return c


def ens_spec_ops(c):
    """(driver, ops) giving the exact per-case scores of c"""
    fl = core.fl_str
    if c["function"] == "brier_score_for_ensemble":
        return "C13S", [{"op": "c13.ensspec", "args": {
            "fcst": [[fl(x) for x in r] for r in c["fcst"]], "obs": [fl(x) for x in c["obs"]],
            "thresholds": [fl(t) for t in c["thr"]], "op": "ge", "fair": c["fair"] is not False, "weights": None}}]
    key, a, b, var = ENS_SPEC[c["function"]]
    ops = []
    for ms, o in zip(c["fcst"], c["obs"]):
        args = {"xs": [fl(x) for x in ms], "y": fl(o)}
        if a is not None:
            args["a"] = fl(a)
        if b is not None:
            args["b"] = fl(b)
        ops.append({"op": "c06.spec", "args": args})
    return "C06", ops


def ens_expected(c, res):
    """exact per-case scores [case][threshold-or-single] (before weighting) from the driver results"""
    if c["function"] == "brier_score_for_ensemble":
        return [[core.parse_fl(x) for x in row] for row in res[0]["cases"]]
    key = ENS_SPEC[c["function"]][0]
    return [[core.parse_fl(r[key]) if key in r else NAN] for r in res]


def ens_arrays(c, keep=None):
    n, m = len(c["fcst"]), len(c["fcst"][0])
    idx = list(range(n)) if keep is None else list(keep)
    cases = [10 + i for i in idx]
    f = xr.DataArray(np.array([c["fcst"][i] for i in idx], dtype=float).reshape(len(idx), m), dims=[R.fresh(K), R.fresh("member")],
                     coords={K: cases, "member": list(range(m))})
    if c["member_first"]:
        f = f.transpose("member", K)
    o = xr.DataArray(np.array([c["obs"][i] for i in idx], dtype=float), dims=[R.fresh(K)], coords={K: cases})
    if c.get("obs_reversed"):
        o = o.isel({K: slice(None, None, -1)})       # stored in another order: alignment is by label
    w = None
    if c["weights"] is not None:
        w = xr.DataArray(np.array([c["weights"][i] for i in idx], dtype=float), dims=[R.fresh(K)], coords={K: cases})
    return f, o, w


def ens_call(c, req, keep=None):
    """{var: DataArray} of the real function on c (cases `keep` only)"""
    import warnings
    f, o, w = ens_arrays(c, keep)
    kw = dict(req)
    if w is not None:
        kw["weights"] = w
    with warnings.catch_warnings(), np.errstate(all="ignore"):
        warnings.simplefilter("ignore")
        if c["function"] == "brier_score_for_ensemble":
            from scores.probability import brier_score_for_ensemble
            if c["fair"] != "omit":
                kw["fair_correction"] = c["fair"]
            r = brier_score_for_ensemble(f, o, R.fresh("member"), list(c["thr"]), **kw)
            return {"value": r}
        e = R.BY_NAME[c["function"]]
        case = R.Case(arrays={"fcst": f, "obs": o}, weights=None, sizes={}, fcst_dims=[K], obs_dims=[K], weights_dims=[K],
                      specific=["member"])
        out = e.outputs(e.call(case, kw, use_weights=False))
        if set(out) == {"value"} and "component" in [str(d) for d in out["value"].dims]:
            r = out["value"]       # include_components: one labelled array; the statements hold for every component
            out = {str(lab): r.sel(component=lab, drop=True) for lab in r["component"].values}
        return out


def per_case_matrix(da, n):
    """[case][threshold-or-single] floats of a preserve-all output, case labels 10.., thresholds increasing"""
    dims = [str(d) for d in da.dims]
    other = [d for d in dims if d != K]
    if K not in dims or len(other) > 1 or da.sizes[K] != n:
        return None
    da = da.sortby(K)
    if other:
        da = da.sortby(other[0]).transpose(K, other[0])
        return [[float(x) for x in row] for row in np.asarray(da.values, dtype=float)]
    return [[float(x)] for x in np.asarray(da.values, dtype=float)]


def vec(da):
    return [float(x) for x in np.asarray(da.sortby(da.dims[0]).values if da.dims else da.values, dtype=float).ravel()]


def check_missing_case(ctx, batch, site, c, exact, call, main_var, tags, theorem):
    """exact: [case][k] exact unweighted per-case scores (NaN = the case is missing).  Statements:
    (1) the preserve_dims='all' output is NaN exactly at the missing cases and has the exact value elsewhere;
    (2) the aggregate over all cases = exact mean over the present cases = the aggregate after deleting the missing cases."""
    n = len(exact)
    w = c.get("weights")
    exp = [[fmul(v, w[i]) if w is not None else v for v in row] for i, row in enumerate(exact)]
    missing = [i for i in range(n) if all(core.is_nan(v) for v in exp[i])]
    nfail = len(ctx.failures)
    try:
        out = call(c, {"preserve_dims": "all"})
    except Exception as ex:  # noqa: BLE001
        ctx.fail(batch, "property", site, "exception:" + core.exc_class(ex), c, observed=str(ex)[:200], expected="a result", tags=tags)
        return True
    for var, da in out.items():
        got = per_case_matrix(da, n)
        if got is None or any(len(g) != len(e) for g, e in zip(got, exp)):
            ctx.fail(batch, "property", site, "shape", c, observed={"var": var, "dims": [str(d) for d in da.dims]},
                     expected="one value per case (and threshold)", tags=tags)
            continue
        gm = [[math.isnan(x) for x in row] for row in got]
        em = [[core.is_nan(x) for x in row] for row in exp]
        if gm != em:
            ctx.fail(batch, "property", site, "nan-mask-differs", c, observed={"var": var, "values": got, "nan_at": gm},
                     expected={"nan_at": em, "values": exp}, tags=dict(tags, var=var), theorem="add_nan_iff")
        elif var == main_var and not all(core.close(x, y) for g, e in zip(got, exp) for x, y in zip(g, e)):
            ctx.fail(batch, "property", site, "case-value", c, observed={"var": var, "values": got}, expected=exp,
                     tags=dict(tags, var=var), theorem=theorem)
    # aggregate
    try:
        agg = call(c, {})
    except Exception as ex:  # noqa: BLE001
        ctx.fail(batch, "property", site, "exception:" + core.exc_class(ex), c, observed=str(ex)[:200], expected="a result", tags=tags)
        return True
    nk = len(exp[0])
    emean = [fnanmean([exp[i][k] for i in range(n)]) for k in range(nk)]
    g = vec(agg[main_var])
    if len(g) != nk or not all(core.close(x, y) for x, y in zip(g, emean)):
        ctx.fail(batch, "property", site, "aggregate-value", c, observed=g, expected=emean, tags=tags,
                 theorem="nanmean_mask_eq_delete")
    keep = [i for i in range(n) if i not in missing]
    if keep and missing:
        try:
            dele = call(c, {}, keep)
        except Exception as ex:  # noqa: BLE001
            ctx.fail(batch, "property", site, "exception-only-one-side", c, observed="masked: a result",
                     expected="deleted: " + str(ex)[:150], tags=tags)
            return True
        for var in agg:
            a, b = vec(agg[var]), vec(dele[var]) if var in dele else None
            if b is None or len(a) != len(b) or not all(core.close_ff(x, y) for x, y in zip(a, b)):
                ctx.fail(batch, "property", site, "masked-differs-from-deleted", c, observed={"var": var, "masked": a},
                         expected={"deleted": b, "deleted_cases": missing}, tags=dict(tags, var=var),
                         theorem="nanmean_mask_eq_delete")
    return len(ctx.failures) > nfail


def eval_ens(ctx, c, res):
    exact = ens_expected(c, res)
    main = "value" if c["function"] == "brier_score_for_ensemble" else ENS_SPEC[c["function"]][3]
    tags = {"function": c["function"], "class": "no-member-or-no-observation"}
    return check_missing_case(ctx, "ensemble-missing-case", c["function"], c, exact, ens_call, main, tags,
                              "nanmean_mask_eq_delete")


def ensemble_missing_case(ctx, ncases):
    rng = ctx.rng
    cs = [gen_ens(rng, fn) for fn in ENS_FUNCS for _ in range(ncases)]
    by = {}
    for i, c in enumerate(cs):
        drv, ops = ens_spec_ops(c)
        by.setdefault(drv, []).append((i, ops))
    res = {}
    for drv, items in by.items():
        flat = [o for _, ops in items for o in ops]
        out = core.run_driver(drv, flat)
        p = 0
        for i, ops in items:
            res[i] = out[p:p + len(ops)]
            p += len(ops)
    for i, c in enumerate(cs):
        ctx.case("ensemble-missing-case", c, nontrivial=any(p not in ("all-members-nan", "obs-nan", "both-nan") for p in c["patterns"]))
        for p in set(c["patterns"]):
            ctx.tag("ens:" + p)
        ctx.tag("ens:weights" if c["weights"] is not None else "ens:no-weights")
        eval_ens(ctx, c, res[i])


# ---- risk matrix: decision points without weight
RM_PROBS = [0.125, 0.25, 0.375, 0.5, 0.625, 0.75, 0.875]


def gen_scaling(rng, nprob, nsev):
    """a legal warning scaling matrix ((nprob+1) x (nsev+1): first column / last row 0, non-decreasing to the right and
    upwards) whose two highest severity columns are identical (the service does not distinguish them)"""
    S = [[0] * (nsev + 1) for _ in range(nprob + 1)]
    for i in range(nprob - 1, -1, -1):
        for j in range(1, nsev + 1):
            S[i][j] = max(S[i + 1][j], S[i][j - 1]) + rng.choice([0, 1])
    if S[0][nsev] == 0:
        S[0] = [0] + [1] * nsev              # at least one warning level
    for i in range(nprob + 1):
        S[i][nsev] = S[i][nsev - 1]
    return S


def gen_rm(rng):
    from scores.emerging import weights_from_warning_scaling
    nsev = rng.choice([2, 3, 3, 4])
    nprob = rng.choice([1, 2, 3])
    probs = sorted(rng.sample(RM_PROBS, nprob))
    sev = ["s%d" % j for j in range(nsev)]
    built = None
    if rng.random() < 0.4:
        S = gen_scaling(rng, nprob, nsev)
        q = max(max(r) for r in S)
        aw = [float(rng.choice([1, 2, 3, 0.5])) for _ in range(max(q, 1))]
        da = weights_from_warning_scaling(np.array(S, dtype=int), aw, "sev", sev, "prob", probs)
        W = [[float(da.sel(prob=p, sev=s)) for s in sev] for p in probs]     # the VALUES handed to the score
        built = {"S": S, "assessment_weights": aw}
    else:
        W = [[float(rng.choice([0, 0.5, 1, 2, 3])) for _ in sev] for _ in probs]
        for j in rng.sample(range(nsev), rng.choice([1, 1, 2]) if nsev > 2 else 1):
            for row in W:
                row[j] = 0.0                     # a severity category without any weight
        if nprob > 1 and rng.random() < 0.4:
            W[rng.randrange(nprob)] = [0.0] * nsev    # a probability threshold without any weight
    zero_cols = [j for j in range(nsev) if all(row[j] == 0 for row in W)]
    n = rng.choice([2, 3, 4, 5])
    fcst, obs, pats = [], [], []
    for k in range(n):
        f = [R.draw(rng, "prob", rng.choice(probs)) for _ in sev]
        o = [R.draw(rng, "binary") for _ in sev]
        p = rng.choice(["valid", "nan-zero-weight-fcst", "nan-zero-weight-obs", "nan-weighted", "valid"])
        if k == 0:
            p = rng.choice(["nan-zero-weight-fcst", "nan-zero-weight-obs"])
        if k == 1:
            p = "valid"
        if p.startswith("nan-zero-weight") and zero_cols:
            j = rng.choice(zero_cols)
            (f if p.endswith("fcst") else o)[j] = NAN
        elif p == "nan-weighted" or p.startswith("nan-zero-weight"):
            p = "nan-weighted"
            (f if rng.random() < 0.5 else o)[rng.randrange(nsev)] = NAN
        fcst.append(f)
        obs.append(o)
        pats.append(p)
    w = None
    if rng.random() < 0.3:
        w = [R.draw(rng, "pos") for _ in range(n)]
    return {"function": "risk_matrix_score", "sev": sev, "probs": probs, "W": W, "fcst": fcst, "obs": obs, "weights": w,
            "mode": rng.choice(["lower", "upper"]), "patterns": pats, "built": built, "zero_columns": zero_cols,
            "w_transposed": rng.random() < 0.3}


def rm_spec_op(c):
    fl = core.fl_str
    return {"op": "c12.rm", "args": {"mode": c["mode"], "W": [[fl(p), [fl(x) for x in row]] for p, row in zip(c["probs"], c["W"])],
                                     "cases": [[[fl(f), fl(o)] for f, o in zip(rf, ro)] for rf, ro in zip(c["fcst"], c["obs"])]}}


def rm_call(c, req, keep=None):
    import warnings
    from scores.emerging import risk_matrix_score
    n = len(c["fcst"])
    idx = list(range(n)) if keep is None else list(keep)
    cases = [10 + i for i in idx]
    ns = len(c["sev"])
    f = xr.DataArray(np.array([c["fcst"][i] for i in idx], dtype=float).reshape(len(idx), ns), dims=[R.fresh(K), R.fresh("sev")],
                     coords={K: cases, "sev": list(c["sev"])})
    o = xr.DataArray(np.array([c["obs"][i] for i in idx], dtype=float).reshape(len(idx), ns), dims=[R.fresh(K), R.fresh("sev")],
                     coords={K: cases, "sev": list(c["sev"])})
    W = xr.DataArray(np.array(c["W"], dtype=float).reshape(len(c["probs"]), ns), dims=["prob", "sev"],
                     coords={"prob": list(c["probs"]), "sev": list(c["sev"])})
    if c.get("w_transposed"):
        W = W.transpose("sev", "prob")
    kw = dict(req)
    if c["weights"] is not None:
        kw["weights"] = xr.DataArray(np.array([c["weights"][i] for i in idx], dtype=float), dims=[R.fresh(K)], coords={K: cases})
    with warnings.catch_warnings(), np.errstate(all="ignore"):
        warnings.simplefilter("ignore")
        r = risk_matrix_score(f, o, W, R.fresh("sev"), R.fresh("prob"), threshold_assignment=R.fresh(c["mode"]), **kw)
    return {"value": r}


def eval_rm(ctx, c, res):
    exact = [[core.parse_fl(x)] for x in res["spec"]]
    tags = {"function": "risk_matrix_score", "class": "nan-in-zero-weight-category", "built": c.get("built") is not None}
    return check_missing_case(ctx, "risk-matrix-zero-weight", "risk_matrix_score", c, exact, rm_call, "value", tags,
                              "nanmean_mask_eq_delete")


def risk_matrix_zero_weight(ctx, ncases):
    rng = ctx.rng
    cs = [gen_rm(rng) for _ in range(ncases)]
    res = core.run_driver("C12", [rm_spec_op(c) for c in cs])
    for c, r in zip(cs, res):
        ctx.case("risk-matrix-zero-weight", c, nontrivial="valid" in c["patterns"])
        for p in set(c["patterns"]):
            ctx.tag("rm:" + p)
        ctx.tag("rm:built-from-scaling" if c["built"] else "rm:hand-weights")
        ctx.tag("rm:zero-column" if c["zero_columns"] else "rm:no-zero-column")
        eval_rm(ctx, c, r)



# ----------------------------------------------------------------------------- Dataset inputs: one mask PER data variable
# A Dataset is a bundle of independent data variables: every variable is scored on its own cases, so a NaN in one
# variable (forecast or observation) must remove that case from THAT variable only.  Statement checked on the
# implementation: result[v] of the Dataset call = result of the DataArray call on variable v alone (all requests), and
# = the DataArray result with v's own NaN cases physically deleted.  Control run on the same values without any NaN
# separates a missing-value effect from a general Dataset-handling difference (tagged without_nan=True).
DS_FUNCS = [
    "mse", "mae", "rmse", "mse_angular", "mae_angular", "rmse_angular", "additive_bias", "mean_error",
    "multiplicative_bias", "pbias", "quantile_score", "consistent_expectile_score", "consistent_huber_score",
    "consistent_quantile_score", "tw_squared_error", "tw_absolute_error", "tw_quantile_score", "tw_expectile_score",
    "tw_huber_loss", "brier_score", "brier_score_for_ensemble", "crps_for_ensemble", "crps_for_ensemble_components",
    "crps_for_ensemble_fair", "tw_crps_for_ensemble", "tail_tw_crps_for_ensemble", "interval_tw_crps_for_ensemble",
    "probability_of_detection", "probability_of_false_detection", "proportion_exceeding", "proportion_exceeding_single",
    "binary_discretise_proportion_autosqueeze", "binary_discretise_proportion_scalar", "binary_discretise_proportion",
    "risk_matrix_score",
]       # registry functions that take xr.Dataset forecasts/observations and return one result variable per data variable
DS_BATCH = "dataset-per-variable"
DS_NAMES = ["temp", "wind", "rain"]


def da_json(da):
    return {"dims": [str(d) for d in da.dims], "coords": {str(d): np.asarray(da[d].values).tolist() for d in da.dims},
            "values": core.canon(np.asarray(da.values, dtype=float).tolist())}


def da_unjson(j):
    return xr.DataArray(np.array(unfl(j["values"]), dtype=float).reshape([len(j["coords"][d]) for d in j["dims"]]),
                        dims=[R.fresh(d) for d in j["dims"]], coords={d: list(j["coords"][d]) for d in j["dims"]})


def gen_ds(rng, e):
    """2-3 data variables on the same case labels, each with its OWN missing cases (fcst / obs slot, disjoint or
    overlapping positions, one variable usually complete); optional shared DataArray weights (sometimes with a NaN)"""
    n = rng.choice([2, 3, 4, 5])
    nv = rng.choice([2, 2, 3])
    with_w = e.weights and rng.random() < 0.35
    base = case_1d(rng, e, n, with_weights=with_w)
    w = base.weights
    if w is not None and rng.random() < 0.3:
        w = w.copy(deep=True)
        w[{K: rng.randrange(n)}] = np.nan
    clean, arrays, positions, slots = {}, {}, {}, {}
    for vi in range(nv):
        v = DS_NAMES[vi]
        case = base if vi == 0 else case_1d(rng, e, n, with_weights=False)
        if rng.random() < 0.25 and vi > 0:
            case = base                                 # identical values in two variables: only the NaN differ
        clean[v] = {k: a for k, a in case.arrays.items()}
        kind = rng.choice(["none", "one", "one", "some", "all"]) if n > 1 else "one"
        pos = {"none": [], "one": [rng.randrange(n)], "some": sorted(rng.sample(range(n), rng.randint(1, n - 1))),
               "all": list(range(n))}[kind]
        slot = rng.choice(["fcst"] + ([] if e.no_obs else ["obs", "obs"]))
        a2, _, _ = inject(rng, e, case, slot, pos)
        clean[v] = case.arrays
        arrays[v], positions[v], slots[v] = a2, pos, slot
    if all(not p for p in positions.values()):          # the class under test: at least one variable has a missing case
        v = rng.choice(list(positions))
        positions[v] = [rng.randrange(n)]
        arrays[v], _, _ = inject(rng, e, R.Case(arrays=clean[v], weights=None, sizes=base.sizes, fcst_dims=base.fcst_dims,
                                                 obs_dims=base.obs_dims, weights_dims=[], specific=base.specific),
                                 slots[v], positions[v])
    req = rng.choice([{}, {}, {"preserve_dims": "all"}, {"reduce_dims": [R.fresh(K)]}])
    return {"function": e.name, "n": n, "request": req, "slots": slots, "positions": positions,
            "vars": {v: {k: da_json(a) for k, a in arrays[v].items()} for v in arrays},
            "clean": {v: {k: da_json(a) for k, a in clean[v].items()} for v in clean},
            "weights": None if w is None else da_json(w)}


def ds_case_of(e, arrs, w):
    return R.Case(arrays=arrs, weights=w, sizes={}, fcst_dims=[K], obs_dims=([] if e.no_obs else [K]),
                  weights_dims=([K] if w is not None else []), specific=list(e.specific))


def ds_eval(ctx, c):
    """True iff the statement fails on c"""
    e = R.BY_NAME[c["function"]]
    req = dict(c["request"])
    names = list(c["vars"])
    arrs = {v: {k: da_unjson(j) for k, j in c["vars"][v].items()} for v in names}
    clean = {v: {k: da_unjson(j) for k, j in c["clean"][v].items()} for v in names}
    w = None if c["weights"] is None else da_unjson(c["weights"])
    n = c["n"]
    nfail = len(ctx.failures)
    tags = {"function": e.name, "class": "dataset-variables", "nvars": len(names), "request": sorted(req)}

    def bundle(per_var):
        return {arg: xr.Dataset({v: per_var[v][arg] for v in names}) for arg, _, _ in e.inputs}

    def call_ds(per_var):
        import warnings
        try:
            with warnings.catch_warnings(), np.errstate(all="ignore"):
                warnings.simplefilter("ignore")
                r = e.call(ds_case_of(e, per_var[names[0]], w), req, arrays=bundle(per_var), weights=w)
            if not isinstance(r, xr.Dataset):
                return None, TypeError("result of a Dataset call is %s" % type(r).__name__)
            return r, None
        except Exception as ex:  # noqa: BLE001
            return None, ex

    got, ex = call_ds(arrs)
    alone = {v: c01.safe_call(e, ds_case_of(e, arrs[v], w), req, arrays=arrs[v], weights=w) for v in names}
    if ex is not None:
        if all(x is None for _, x in alone.values()):
            ctx.fail(DS_BATCH, "property", e.name, "exception:" + core.exc_class(ex), c, observed=str(ex)[:200],
                     expected="one result per data variable (every variable alone gives a result)", tags=tags)
        return len(ctx.failures) > nfail
    if set(str(k) for k in got.data_vars) != set(names):
        ctx.fail(DS_BATCH, "property", e.name, "result-variables", c, observed=sorted(str(k) for k in got.data_vars),
                 expected=names, tags=tags)
        return True
    control = None
    for v in names:
        out, ex1 = alone[v]
        if ex1 is not None or set(out) != {"value"}:
            continue
        differing = []
        if not same_out({v: got[v]}, {v: out["value"]}, differing):
            if control is None:
                control = call_ds(clean)
            cout, cex = c01.safe_call(e, ds_case_of(e, clean[v], w), req, arrays=clean[v], weights=w)
            without_nan = (control[1] is None and cex is None and not same_out({v: control[0][v]}, {v: cout["value"]}))
            t = dict(tags, var=v, without_nan=bool(without_nan), own_missing=c["positions"][v],
                     other_missing=sorted({p for u in names if u != v for p in c["positions"][u]}))
            if without_nan and e.name.startswith("tw_"):
                t["defect"] = "F-C02-DS-TW"       # notes/C02.md: tw_* scores on Datasets were wrong even without any NaN (fixed in /repo 19985d4; reported again if it returns)
            ctx.fail(DS_BATCH, "property", e.name, "dataset-variable-differs-from-variable-alone", c,
                     observed={"var": v, "dataset": core.canon(R.to_labelled(got[v]))},
                     expected={"alone": core.canon(R.to_labelled(out["value"]))}, tags=t, theorem="nanmean_mask_eq_delete")
            continue
        # ... and = the variable alone with ITS OWN missing cases deleted (aggregating requests only)
        pos = c["positions"][v]
        if "preserve_dims" in req or not pos or len(pos) == n:
            continue
        darr, dw = delete(arrs[v], w, pos, n)
        dele, ex2 = c01.safe_call(e, ds_case_of(e, darr, dw), req, arrays=darr, weights=dw)
        if ex2 is not None:
            continue
        if not same_out({v: got[v]}, {v: dele["value"]}):
            t = dict(tags, var=v, own_missing=pos)
            ctx.fail(DS_BATCH, "property", e.name, "dataset-variable-differs-from-deleted", c,
                     observed={"var": v, "dataset": core.canon(R.to_labelled(got[v]))},
                     expected={"deleted": core.canon(R.to_labelled(dele["value"])), "deleted_cases": pos}, tags=t,
                     theorem="nanmean_mask_eq_delete")
    return len(ctx.failures) > nfail


def dataset_per_variable(ctx, ncases):
    rng = ctx.rng
    for name in DS_FUNCS:
        e = R.BY_NAME.get(name)
        if e is None:
            continue
        for _ in range(ncases):
            c = gen_ds(rng, e)
            pos = c["positions"]
            ctx.case(DS_BATCH, c, nontrivial=any(len(p) < c["n"] for p in pos.values()))
            ctx.tag("ds:nvars=%d" % len(pos))
            ctx.tag("ds:request=" + (",".join(sorted(c["request"])) or "default"))
            ctx.tag("ds:weights" if c["weights"] is not None else "ds:no-weights")
            sets = [set(p) for p in pos.values()]
            ctx.tag("ds:missing-differs-between-variables" if any(a != b for a in sets for b in sets) else "ds:same-missing")
            ds_eval(ctx, c)


def replay_concrete(payload):
    """re-evaluate exactly the recorded input of the two batches above"""
    c = dict(payload["case"])
    for k in ("fcst", "obs", "weights", "thr", "probs", "W"):
        if c.get(k) is not None:
            c[k] = unfl(c[k])
    sub = core.Ctx("C02", "quick", payload.get("seed", 0))
    if payload["batch"] == "ensemble-missing-case":
        drv, ops = ens_spec_ops(c)
        return eval_ens(sub, c, core.run_driver(drv, ops))
    return eval_rm(sub, c, core.run_driver("C12", [rm_spec_op(c)])[0])


def correspondence(ctx):
    # reduction model: impl aggregate = Lean nan-mean of the impl's own pointwise output, NaN-heavy inputs
    sub = core.Ctx("C02", ctx.tier, ctx.seed)
    sub.rng = ctx.rng
    c01.check_scores(sub, ncases=ctx.n(1, 4), model=True)
    for f in sub.failures:
        if f["signature"] == "not-nanmean-of-pointwise" and f["tags"].get("defect") != "F9":   # F9 is C01's finding
            f = dict(f, kind="correspondence", property="C02", batch="nanmean-model")
            ctx.failures.append(f)
    b = sub.batches.get("mean-of-pointwise", {"cases": 0, "failed": 0})
    ctx.batches["nanmean-model"] = {"cases": b["cases"], "failed": len([f for f in ctx.failures if f["batch"] == "nanmean-model"])}
    ctx.evaluations += b["cases"]
    # list-level: numpy/xarray nanmean vs SV.nanmean on explicit lists incl. all-NaN and empty
    rng = ctx.rng
    lists = [[], [float("nan")], [float("nan"), float("nan")]]
    for _ in range(ctx.n(100, 2000)):
        n = rng.randint(1, 6)
        lists.append([rng.choice([float("nan"), core.dyadic(rng), core.dyadic(rng)]) for _ in range(n)])
    ops = [{"op": "c01.nanmean", "args": {"xs": [core.fl_str(x) for x in xs]}} for xs in lists] + \
          [{"op": "c01.nansum", "args": {"xs": [core.fl_str(x) for x in xs]}} for xs in lists]
    res = core.run_driver("C01", ops)
    for i, xs in enumerate(lists):
        da = xr.DataArray(np.array(xs, dtype=float), dims=["k"])
        with np.errstate(all="ignore"):
            im, isum = float(da.mean(skipna=True)), float(da.sum(skipna=True))
        ctx.case("list-reductions", {"xs": xs}, nontrivial=any(not math.isnan(x) for x in xs))
        if not core.close(im, res[i]):
            ctx.fail("list-reductions", "correspondence", "xarray.mean", "value", {"xs": xs}, observed=im, expected=res[i])
        if not core.close(isum, res[len(lists) + i]):
            ctx.fail("list-reductions", "correspondence", "xarray.sum", "value", {"xs": xs}, observed=isum, expected=res[len(lists) + i])


def oracle(ctx, boost):
    k = 3 if boost else 1
    mask_vs_delete(ctx, ctx.n(4, 30) * k)
    pointwise_nan(ctx, ctx.n(2, 12) * k)
    ensemble_missing_case(ctx, ctx.n(6, 40) * k)
    risk_matrix_zero_weight(ctx, ctx.n(30, 200) * k)
    dataset_per_variable(ctx, ctx.n(3, 15) * k)


def replay(ctx, payload):
    if payload.get("batch") == DS_BATCH:
        return ds_eval(core.Ctx("C02", "quick", payload.get("seed", 0)), payload["case"])
    if payload.get("batch") in ("ensemble-missing-case", "risk-matrix-zero-weight"):
        return replay_concrete(payload)
    c = core.Ctx("C02", "quick", payload.get("seed", 0))
    site = payload.get("site")
    keep = [e for e in R.REGISTRY if e.name == site]
    if not keep:
        return True
    old = R.REGISTRY[:]
    try:
        R.REGISTRY[:] = keep
        mask_vs_delete(c, 40)
        pointwise_nan(c, 20)
    finally:
        R.REGISTRY[:] = old
    return any(f["signature"] == payload.get("signature") for f in c.failures)
