"""C02 — a missing value removes exactly its own forecast case, never more, never less."""
from __future__ import annotations

import math

import numpy as np
import xarray as xr

from sv import core
from sv import registry as R
from sv.props import c01

PROPERTY = "C02"
GEN = ["Contingency"]
PROPS = ["ScoresVerif/Props/C02.lean"]
DRIVER_DEPS = ["ScoresVerif.Driver.C01"]
LEVEL = "proof"
TRUSTED = ["xarray mean/sum(skipna=True) and count as modelled by SV.nanmean / nansum / count (tied by the correspondence)"]
ASSUMPTIONS = ["cases are laid out along one case dimension (plus the score-specific dims) for the mask-vs-delete relation",
               "FSS is excluded (documented exception: a NaN grid cell is a non-event; decided under C16)"]
RULE = ("every registry function x NaN injected into forecast / observation / weights (each slot and mixed) x subsets of cases; "
        "distinct = distinct (function, inputs, mask); non-trivial = at least one case survives")
MANIFEST = dict(
    level="proof",
    text="Lean theorems for lists of any length: masking cases by NaN equals deleting them for the NaN-skipping mean, sum and "
         "count, also when the NaN sits in the weights; arithmetic kernels are NaN-strict; the contingency event maps "
         "regenerated from the source give NaN (never hit/miss/non-event) for a NaN input and partition valid pairs. Every "
         "public score is tied to that reduction model (Lean nan-mean of its own preserve_dims='all' output, C01 sweep with NaN "
         "injection) and checked directly: result with NaN-masked cases = result with the cases physically deleted, and the "
         "pointwise output is NaN exactly where an input is NaN.",
    note="Per-score kernels' NaN paths (ensemble member dropping, CDF propagation, Murphy/FIRM masks) are proved in their own "
         "property files (C06, C07/C17, C11, C12, C13) and only compared here. FSS excluded by the property text. Library "
         "reductions are modelled, not verified.",
    technique="Lean 4 theorems on NaN-skipping reductions + mask-vs-delete differential relation over a function registry",
    design="6/C02")

SKIP = {"fss_2d", "fss_2d_binary"}          # documented exception
K = "case"


def case_1d(rng, e, n, with_weights):
    sizes = dict({d: 1 for d in R.UNIVERSE}, **{K: n})
    return R.gen_case(rng, e, data_dims=[K], obs_dims=([] if e.no_obs else [K]), weights_dims=[K], sizes=sizes,
                      with_weights=with_weights)


def inject(rng, e, case, slot, positions):
    """NaN into `slot` ('fcst' | 'obs' | 'weights') at case positions; for score-specific dims either the
    whole case (all members / all thresholds) or a single element of it"""
    arrays = {k: v.copy(deep=True) for k, v in case.arrays.items()}
    w = None if case.weights is None else case.weights.copy(deep=True)
    how = "whole-case"
    for arg, dom, role in e.inputs:
        if (slot == "fcst" and role in ("fcst", "fcst2")) or (slot == "obs" and role == "obs"):
            a = arrays[arg]
            if a.dtype == bool:
                continue
            for p in positions:
                sel = {K: p}
                others = [str(d) for d in a.dims if str(d) != K]
                if others and e.name.startswith(("crps_cdf",)) and rng.random() < 0.5:
                    # one NaN ordinate must blank the whole CDF of that case (propagate_nans)
                    sel[others[0]] = rng.randrange(a.sizes[others[0]])
                    how = "single-ordinate"
                a.loc[{d: a[d].values[i] for d, i in sel.items()}] = np.nan
            arrays[arg] = a
    if slot == "weights" and w is not None:
        for p in positions:
            w[{K: p}] = np.nan
    return arrays, w, how


def delete(case_arrays, w, positions, n):
    keep = [i for i in range(n) if i not in positions]
    arrays = {k: (v.isel({K: keep}) if K in [str(d) for d in v.dims] else v) for k, v in case_arrays.items()}
    w2 = None if w is None else (w.isel({K: keep}) if K in [str(d) for d in w.dims] else w)
    return arrays, w2


def values(out):
    res = {}
    for var, da in out.items():
        res[var] = R.to_labelled(da)
    return res


def same_out(o1, o2, differing=None):
    """compare two output dicts label by label; dims the score adds itself (e.g. the threshold grid of the Brier
    decomposition, which contains every observation value) are compared on their common labels"""
    if set(o1) != set(o2):
        return False
    ok = True
    for var in o1:
        a, b = o1[var], o2[var]
        if set(a.dims) != set(b.dims):
            ok = False
            if differing is not None:
                differing.append(var)
            continue
        if a.shape != b.transpose(*a.dims).shape:
            a, b = xr.align(a, b, join="inner")
        d1, s1, v1 = R.to_labelled(a)
        d2, s2, v2 = R.to_labelled(b)
        if d1 != d2 or s1 != s2 or not all(core.close_ff(x, y) for x, y in zip(v1, v2)):
            ok = False
            if differing is not None:
                differing.append(var)
    return ok


INTERVAL_FUNCS = ("quantile_interval_score", "interval_score")


def f20_tags(e, differing):
    """known finding F20: the component variables of the (quantile-)interval score that do not involve a missing
    input stay non-NaN for that case (only `total` is NaN), so their aggregates still count the case"""
    if e.name in INTERVAL_FUNCS and differing and "total" not in differing:
        return {"defect": "F20", "component_only": True}
    return {}


def mask_vs_delete(ctx, ncases):
    rng = ctx.rng
    for e in R.REGISTRY:
        if e.name in SKIP:
            continue
        for ci in range(ncases):
            n = rng.choice([2, 3, 4, 5])
            case = case_1d(rng, e, n, with_weights=e.weights and rng.random() < 0.6)
            slots = ["fcst"] + ([] if e.no_obs else ["obs"]) + (["weights"] if case.weights is not None else [])
            slot = rng.choice(slots + (["mixed"] if len(slots) > 1 else []))
            npos = rng.choice([1, 1, 2, n]) if n > 1 else 1
            positions = sorted(rng.sample(range(n), min(npos, n)))
            arrays, w = {k: v for k, v in case.arrays.items()}, case.weights
            how = "whole-case"
            if slot == "mixed":
                for p in positions:
                    c2 = R.Case(arrays=arrays, weights=w, sizes=case.sizes, fcst_dims=case.fcst_dims, obs_dims=case.obs_dims,
                                weights_dims=case.weights_dims, specific=case.specific)
                    arrays, w, how = inject(rng, e, c2, rng.choice(slots), [p])
            else:
                arrays, w, how = inject(rng, e, case, slot, positions)
            desc = {"function": e.name, "n": n, "slot": slot, "positions": positions, "how": how,
                    "inputs": {k: core.canon(np.asarray(v.values).tolist()) for k, v in arrays.items()},
                    "weights": None if w is None else core.canon(np.asarray(w.values).tolist())}
            ctx.case("mask-vs-delete", desc, nontrivial=len(positions) < n)
            ctx.tag("slot:" + slot)
            ctx.tag("all-deleted" if len(positions) == n else "some-deleted")
            masked, ex1 = c01.safe_call(e, case, {}, arrays=arrays, weights=w)
            darr, dw = delete(arrays, w, positions, n)
            if len(positions) == n:
                # nothing left: the aggregate of an empty set — NaN for means; compare with the all-masked result only
                if ex1 is not None:
                    ctx.fail("mask-vs-delete", "property", e.name, "exception:" + core.exc_class(ex1), desc,
                             observed=str(ex1)[:200], expected="NaN result", tags={"function": e.name, "slot": slot})
                continue
            deleted, ex2 = c01.safe_call(e, case, {}, arrays=darr, weights=dw)
            tags = {"function": e.name, "slot": slot, "how": how}
            if ex1 is not None or ex2 is not None:
                if (ex1 is None) != (ex2 is None):
                    ctx.fail("mask-vs-delete", "property", e.name, "exception-only-one-side", desc,
                             observed=str(ex1)[:150], expected=str(ex2)[:150], tags=tags)
                continue
            differing = []
            if not same_out(masked, deleted, differing):
                tags.update(f20_tags(e, differing))
                tags["vars"] = sorted(differing)
                ctx.fail("mask-vs-delete", "property", e.name, "masked-differs-from-deleted", desc,
                         observed=core.canon(values(masked)), expected=core.canon(values(deleted)), tags=tags,
                         theorem="nanmean_mask_eq_delete")


def pointwise_nan(ctx, ncases):
    """single-case scores: the preserve_dims='all' output is NaN exactly where some input is NaN"""
    rng = ctx.rng
    for e in R.REGISTRY:
        if e.kind != "mean" or e.name in SKIP or e.out_extra_dims and e.name in ("flip_flop_index_proportion_exceeding",):
            continue
        for ci in range(ncases):
            case = R.gen_case(rng, e, with_weights=e.weights and rng.random() < 0.5, nan_p=0.25, weight_nan_p=0.15)
            out, ex = c01.safe_call(e, case, {"preserve_dims": "all"})
            desc = R.describe(case, {"preserve_dims": "all"})
            ctx.case("pointwise-nan-mask", desc)
            if ex is not None:
                ctx.fail("pointwise-nan-mask", "property", e.name, "exception:" + core.exc_class(ex), desc, observed=str(ex)[:200],
                         expected="a result", tags={"function": e.name})
                continue
            # expected mask: some input NaN at that label (score-specific dims: any element for CDF-type, all for ensembles)
            anynan = None
            for arg, dom, role in e.inputs:
                a = case.arrays[arg]
                if a.dtype == bool:
                    continue
                m = a.isnull()
                for d in e.specific:
                    if d in [str(x) for x in m.dims]:
                        if e.name.startswith("crps_cdf") or e.name == "risk_matrix_score":
                            m = m.any(d)
                        else:
                            m = m.all(d)      # ensembles: the case is missing only if every member is
                anynan = m if anynan is None else (anynan | m)
            if case.weights is not None:
                anynan = anynan | case.weights.isnull()
            if e.name == "crps_for_ensemble_fair":
                fc = case.arrays["fcst"]
                anynan = anynan | (fc.notnull().sum("member") < 2)      # F8: needs two valid members
            differing = []
            detail = {}
            for var, da in out.items():
                g2, e2 = xr.broadcast(da.isnull(), anynan)
                if not bool((g2 == e2).all()):
                    differing.append(var)
                    detail[var] = {"nan_at": core.canon(np.asarray(g2.values).tolist()),
                                   "expected_nan_at": core.canon(np.asarray(e2.values).tolist())}
            if differing:
                tags = {"function": e.name, "vars": sorted(differing)}
                tags.update(f20_tags(e, differing))
                ctx.fail("pointwise-nan-mask", "property", e.name, "nan-mask-differs", desc, observed=detail,
                         expected="NaN exactly where an input of the case is NaN", tags=tags, theorem="add_nan_iff")


def correspondence(ctx):
    # reduction model: impl aggregate = Lean nan-mean of the impl's own pointwise output, NaN-heavy inputs
    sub = core.Ctx("C02", ctx.tier, ctx.seed)
    sub.rng = ctx.rng
    c01.check_scores(sub, ncases=ctx.n(1, 4), model=True)
    for f in sub.failures:
        if f["signature"] == "not-nanmean-of-pointwise" and f["tags"].get("defect") != "F9":   # F9 is C01's finding
            f = dict(f, kind="correspondence", property="C02", batch="nanmean-model")
            ctx.failures.append(f)
    b = sub.batches.get("mean-of-pointwise", {"cases": 0, "failed": 0})
    ctx.batches["nanmean-model"] = {"cases": b["cases"], "failed": len([f for f in ctx.failures if f["batch"] == "nanmean-model"])}
    ctx.evaluations += b["cases"]
    # list-level: numpy/xarray nanmean vs SV.nanmean on explicit lists incl. all-NaN and empty
    rng = ctx.rng
    lists = [[], [float("nan")], [float("nan"), float("nan")]]
    for _ in range(ctx.n(100, 2000)):
        n = rng.randint(1, 6)
        lists.append([rng.choice([float("nan"), core.dyadic(rng), core.dyadic(rng)]) for _ in range(n)])
    ops = [{"op": "c01.nanmean", "args": {"xs": [core.fl_str(x) for x in xs]}} for xs in lists] + \
          [{"op": "c01.nansum", "args": {"xs": [core.fl_str(x) for x in xs]}} for xs in lists]
    res = core.run_driver("C01", ops)
    for i, xs in enumerate(lists):
        da = xr.DataArray(np.array(xs, dtype=float), dims=["k"])
        with np.errstate(all="ignore"):
            im, isum = float(da.mean(skipna=True)), float(da.sum(skipna=True))
        ctx.case("list-reductions", {"xs": xs}, nontrivial=any(not math.isnan(x) for x in xs))
        if not core.close(im, res[i]):
            ctx.fail("list-reductions", "correspondence", "xarray.mean", "value", {"xs": xs}, observed=im, expected=res[i])
        if not core.close(isum, res[len(lists) + i]):
            ctx.fail("list-reductions", "correspondence", "xarray.sum", "value", {"xs": xs}, observed=isum, expected=res[len(lists) + i])


def oracle(ctx, boost):
    k = 3 if boost else 1
    mask_vs_delete(ctx, ctx.n(4, 30) * k)
    pointwise_nan(ctx, ctx.n(2, 12) * k)


def replay(ctx, payload):
    c = core.Ctx("C02", "quick", payload.get("seed", 0))
    site = payload.get("site")
    keep = [e for e in R.REGISTRY if e.name == site]
    if not keep:
        return True
    old = R.REGISTRY[:]
    try:
        R.REGISTRY[:] = keep
        mask_vs_delete(c, 40)
        pointwise_nan(c, 20)
    finally:
        R.REGISTRY[:] = old
    return any(f["signature"] == payload.get("signature") for f in c.failures)
