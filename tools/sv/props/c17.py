"""C17 — CDF repair tools bracket the input minimally; CRPS adjustment never flatters."""
from __future__ import annotations

import itertools
import math
from fractions import Fraction

import numpy as np
import xarray as xr

from sv import core
from sv import cdf_c17c07 as cc

PROPERTY = "C17"
GEN = ["Cdf"]
PROPS = ["ScoresVerif/Props/C17.lean", "ScoresVerif/Props/C17Spec.lean"]
DRIVER_DEPS = ["ScoresVerif.Driver.C17"]
LEVEL = "proof"
TRUSTED = ["xarray interpolate_na / ffill / bfill / sortby / idxmax / shift / sum(min_count) are modelled by their documented "
           "meaning (Model/Cdf.lean) and tied to the library by the correspondence check only"]
ASSUMPTIONS = ["ordinates are dyadic (k/8), thresholds small integers / halves, rounding precisions dyadic: float arithmetic is exact "
               "or compared to 1e-9", "thresholds and observations are finite or NaN (no infinities)",
               "float rounding is not modelled: exact CRPS ties in adjust_fcst_for_crps are accepted either way unless the float "
               "computation is exact (trapz, dyadic grid)",
               "storage dtypes (ordinates float32 / int64..int8 / bool / uint8 / uint16, threshold coordinates and observations "
               "int64..int8 / uint8 / uint16 / float32, list arguments as python ints / integer or float32 ndarrays, precisions and "
               "tolerances as python ints / numpy scalars) hold exactly representable values; the expected result is that of the "
               "VALUES (the Lean model / spec have no storage dtype); interpolated fills and integrals of narrow-dtype inputs may "
               "legitimately be computed in float32 and are compared at 1e-5 relative, everything else at 1e-9 / exactly",
               "abscissa scale: adjust / add_thresholds / integrate also run with all abscissae (thresholds, observations, new / "
               "additional thresholds) multiplied by 2^k, k in {-30,-24,-20,-10,10} (exactness preserved); CRPS / integrals of those "
               "cases are compared RELATIVE to their own size, the returned threshold coordinate of add_thresholds exactly; "
               "new thresholds of add_thresholds may be float64 decimals (tenths, x+-0.001, thirds) not representable in a "
               "float32 / integer coordinate: they must appear exactly in the result"]
MANIFEST = dict(
    level="proof",
    text="Kernel-checked Lean theorems about an executable model of the eight CDF tools and adjust_fcst_for_crps (for lists of "
         "any length): the upper envelope is the running maximum and the lower the reverse running minimum of the non-NaN "
         "ordinates with NaN positions preserved; both are non-decreasing, bracket the input, are the least monotone majorant / "
         "greatest monotone minorant and coincide with a non-decreasing input; every fill method keeps the given ordinates, stays "
         "in [0,1] and blanks a CDF with fewer than min_nonnan points; decreasing_cdfs flags exactly total decrease > tolerance; "
         "propagate_nan / observed_cdf (t >= obs) / round_values (nearest multiple, ties to even) as named; the cdf_type chosen by "
         "adjust_fcst_for_crps has the largest CRPS (so never below the original), ties prefer original then upper, unchanged "
         "when nothing decreases. The model is tied to the code by a differential correspondence on all nine functions incl. their "
         "ValueError guards, and the decreasing-sum kernel by the AST translator; an independent oracle checks the property itself "
         "(position-wise Lean Spec for envelopes / fills / flags, bracket and minimality relations, CRPS(adjusted) >= CRPS(original) "
         "and = max over the three candidates with the real crps_cdf).",
    note="Trusted: Lean kernel; propext/Classical.choice/Quot.sound; SV.Fl (IEEE minus rounding/overflow/signed zero); xarray "
         "interpolate_na / ffill / bfill / sortby / idxmax / shift / sum(min_count) are modelled by their documented meaning and "
         "compared, not verified; py2lean for the decreasing kernel. Not proved in Lean (compared only): fill values equal the "
         "knot-function Spec (linear chord / step / forward / backward) and the equality of the model envelopes with the index-wise "
         "Spec.upper / Spec.lower used by the oracle; the whole-array adjust pipeline (the theorem is about the idxmax selection). "
         "Round_values is proved for precisions whose multiples survive the final 7-decimal rounding (all dyadic precisions >= 2^-7); "
         "other precisions are float-rounding questions outside the model. Exact CRPS ties in adjust are accepted either way unless "
         "the float computation is exact (trapz on a dyadic grid). Inputs are built C-contiguous (bottleneck 1.6 misreads "
         "transposed views with size-1 dims). No infinities, no dask (F15 belongs to C04). Storage dtypes are not modelled (the "
         "model is a function of the values): that input class is compared against the model / spec evaluated on the exact values "
         "and against the float64-stored run of the same values; one dtype defect of the unchanged code (decreasing tolerance "
         "given as an unsigned numpy scalar: -tolerance wraps around, notes/C17.md) is skipped by the correspondence and tagged "
         "by the oracle.",
    technique="Lean 4 theorems over a hand-written executable model + differential correspondence + independent Lean-Spec / relational oracle",
    design="6/C17")
RULE = ("random CDF arrays (length 1-6, decreasing runs, plateaus, NaN, 0-2 extra dims in any order) per tool, plus the exhaustive "
        "enumeration of all CDFs of length <= 4 over {0,1/4,1/2,1,NaN} (thorough); per tool the same generator with the operands "
        "stored in float32 / signed integer / bool dtypes (batches *-dtype) and with at least one uint8 / uint16 operand (batches "
        "*-unsigned), values made exactly representable first; 20-35 % of the adjust / add / integrate cases on an abscissa scale "
        "2^k (k = -30..10), 25-50 % of the add cases with decimal (non-float32) new thresholds; distinct = distinct (tool, arguments, storage); "
        "non-trivial = at least one non-NaN ordinate and not in the malformed stream")

TOOLS = ["round", "propagate", "observed", "integrate", "fill", "add", "decreasing", "envelope", "adjust"]


# ----------------------------------------------------------------------------- generators
def gen_case(rng, tool, malformed_ok=True, variants=True):
    c = {"tool": tool}
    if tool == "round":
        n = rng.randint(1, 6)
        c["xs"] = [rng.choice([cc.NAN, rng.randint(-64, 64) / 16, rng.randint(-40, 40) / 4, rng.randint(-6, 6) * 1.0]) for _ in range(n)]
        c["prec"] = rng.choice([0, 0.125, 0.25, 0.5, 1, 2, 4, 0.5, 1] + ([-1, -0.5] if malformed_ok else []))
        c["decpl"] = rng.choice([7, 7, 7, 3, 0])
        return c
    if tool == "observed":
        n = rng.randint(1, 5)
        vals = [rng.choice([cc.NAN, rng.randint(-8, 16) / 4, rng.randint(-2, 4) * 1.0]) for _ in range(n)]
        if rng.random() < 0.1:
            vals = [cc.NAN] * n
        two = rng.random() < 0.3 and n % 2 == 0
        c["obs"] = vals
        c["obs_shape"] = [2, n // 2] if two else [n]
        r = rng.random()
        if r < 0.25:
            c["tv"] = None
        else:
            m = rng.randint(0, 5)
            pool = [v for v in vals if not math.isnan(v)] or [0.0]
            c["tv"] = [rng.choice([rng.randint(-8, 16) / 4, rng.choice(pool), rng.choice(pool), cc.NAN if rng.random() < 0.3 else 1.0])
                       for _ in range(m)]
        c["include"] = rng.random() < 0.6
        c["prec"] = rng.choice([0, 0, 0.5, 1, 2, 0.25] + ([-1] if malformed_ok else []))
        return c
    # array tools
    nmin = 2 if tool in ("adjust",) else 1
    c.update(cc.gen_array(rng, nmin=nmin, nmax=6,
                          partial_nan=tool not in ("decreasing",) or rng.random() < 0.08,
                          out_of_bounds=(malformed_ok and tool in ("fill", "add", "adjust", "envelope") and rng.random() < 0.06),
                          shuffle_thr=(tool == "envelope" and rng.random() < 0.3)))
    if tool in ("fill", "add"):
        c["method"] = rng.choice(["linear", "step", "forward", "backward"] + (["none"] if tool == "add" else []) +
                                 (["nearest"] if malformed_ok and rng.random() < 0.3 else []))
        c["min_nonnan"] = rng.choice([2, 2, 1, 3, 0] if malformed_ok else [2, 2, 1, 3])
        if c["method"] == "linear" and not malformed_ok:
            c["min_nonnan"] = max(2, c["min_nonnan"])
    if tool == "add":
        pool = c["thr"]
        m = rng.randint(0, 4)
        c["new"] = [rng.choice([rng.randint(-6, 18) / 2, rng.choice(pool), cc.NAN if rng.random() < 0.2 else rng.randint(-3, 9) * 1.0])
                    for _ in range(m)]
    if tool == "decreasing":
        c["tol"] = rng.choice([0, 0, 0.125, 0.25, 0.5, 1] + ([-0.25] if malformed_ok else []))
        if rng.random() < 0.5:   # put the tolerance exactly on / next to the total decrease of some row
            tds = [cc.total_decrease(r) for r in c["rows"] if not any(math.isnan(v) for v in r)]
            if tds:
                # ... including a hair (2^-30, 2^-40: exactly representable) below / above it: "decreasing outside tolerance"
                # is an exact comparison, not one up to a relative or absolute closeness
                c["tol"] = max(0.0, rng.choice(tds) + rng.choice([0, 0, -0.125, 0.125, -2.0 ** -30, 2.0 ** -30, -2.0 ** -40, 2.0 ** -40]))
    if tool == "integrate":
        c["pw"] = None if rng.random() < 0.5 else [[rng.choice([0.0, 1.0, 0.5, 0.25, 2.0, cc.NAN if rng.random() < 0.2 else 1.0])
                                                      for _ in r] for r in c["rows"]]
    if tool == "adjust":
        c["tol"] = rng.choice([0, 0, 0, 0.125, 0.25, 0.5] + ([-0.25] if malformed_ok and rng.random() < 0.3 else []))
        if rng.random() < 0.3:   # the tolerance a hair below / above the total decrease of some row (see "decreasing")
            tds = [cc.total_decrease(r) for r in c["rows"] if not any(math.isnan(v) for v in r)]
            tds = [t for t in tds if t > 0]
            if tds:
                c["tol"] = max(0.0, rng.choice(tds) + rng.choice([0, -2.0 ** -30, 2.0 ** -30]))
        c.update(cc.gen_obs(rng, c))
        c["additional"] = rng.choice([None, None, [], [rng.randint(-4, 16) / 2 for _ in range(rng.randint(1, 3))]])
        c["fill"] = rng.choice(["linear", "linear", "step", "forward", "backward"])
        c["integ"] = rng.choice(["exact", "trapz"])
    if not variants:
        return c
    if tool == "add" and c["new"] and rng.random() < 0.25:
        decimal_new(rng, c)
    if tool in SCALED_TOOLS and rng.random() < (0.35 if tool == "adjust" else 0.2):
        apply_scale(c, rng.choice(SCALES))
    return c


# Numeric scale of the abscissae.  The property is invariant under a change of units of the threshold axis (thresholds,
# observations, additional / new thresholds all multiplied by the same factor: ordinates, flags and the chosen candidate stay,
# integrals / CRPS scale with it).  Factors are powers of two, so every float operation that was exact stays exact and ties
# stay ties; 2^-24 / 2^-30 put a whole CRPS far below 1e-6 (mixing ratios in kg/kg, rainfall in metres), 2^10 far above 1.
SCALED_TOOLS = ("adjust", "add", "integrate")
SCALES = [-24, -24, -30, -20, -10, 10]


def apply_scale(c, k):
    f = 2.0 ** k
    c["scale"] = k
    c["thr"] = [t * f for t in c["thr"]]
    for key in ("obs_vals", "additional", "new"):
        if c.get(key) is not None:
            c[key] = [v * f for v in c[key]]
    return c


def decimal_new(rng, c):
    """new thresholds that are ordinary decimals (tenths / thousandths next to the grid): float64 values that are NOT
    representable in float32 (nor as halves), handed over as python floats"""
    lo, hi = int(math.floor(min(c["thr"]))) - 1, int(math.ceil(max(c["thr"]))) + 1
    for j in range(len(c["new"])):
        if rng.random() < 0.6:
            c["new"][j] = rng.choice([rng.randint(10 * lo, 10 * hi) / 10, rng.choice(c["thr"]) + rng.choice([0.1, -0.1, 0.3, 0.001, -0.001]),
                                      rng.randint(lo, hi) + rng.choice([0.7, 0.15, 1 / 3])])
    c["decimal_new"] = True
    return c


# ----------------------------------------------------------------------------- storage dtypes
# The VALUES of a case are the floats in the case (thr / rows / obs / new / ...).  case["dt"] only says in which numpy dtype
# (or python representation) each operand is STORED when it is handed to the library; every value is exactly representable
# there (integers for the integer dtypes, 0/1 for bool, small dyadics for float32, NaN only in float storage).  The Lean
# model / spec never see the storage: the expected result is a function of the exact values.
#   dt keys: v ordinates (rows / xs)   t threshold coordinate   o observations   pw piece weights (arrays: numpy dtype names)
#            new / tv / add  list arguments: "list" (python floats) | "pyint" (python ints) | numpy dtype name (ndarray)
#            prec / tol      scalars: "int" (python int) | numpy dtype name (numpy scalar) | absent (python float)
SIGNED = ["int64", "int32", "int16", "int8"]
UNSIGNED = ["uint8", "uint16"]
# numpy keeps float32 when these meet float32, and xarray promotes the integer ones to float32 when it needs a NaN
NARROW = ("float32", "int16", "int8", "uint8", "uint16", "bool")


def is_int_dt(dt):
    return dt is not None and (dt.startswith("int") or dt.startswith("uint") or dt in ("bool", "pyint"))


def fits(v, dt):
    if dt in (None, "float64", "list"):
        return True
    if math.isnan(v):
        return dt == "float32"
    if dt == "float32":
        return float(np.float32(v)) == v
    if dt == "bool":
        return v in (0.0, 1.0)
    if dt in ("pyint", "int"):
        return v == int(v)
    info = np.iinfo(dt)
    return v == int(v) and info.min <= v <= info.max


def stored(xs, dt):
    a = np.array(xs, dtype=float)
    if dt in (None, "float64"):
        return a
    assert all(fits(float(v), dt) for v in a.ravel()), ("value not representable in its storage dtype", dt, xs)
    return a.astype(dt)


def as_arg(xs, rep):
    if xs is None or rep in (None, "list"):
        return xs
    if rep == "pyint":
        assert all(fits(x, "pyint") for x in xs), xs
        return [int(x) for x in xs]
    return stored(xs, rep)


def as_scalar(x, rep):
    if rep is None:
        return x
    assert fits(float(x), rep), (x, rep)
    if rep == "int":
        return int(x)
    return np.dtype(rep).type(x)


def dt_of(c, k):
    return (c.get("dt") or {}).get(k)


def has_unsigned(c):
    return any(v in UNSIGNED for v in (c.get("dt") or {}).values())


def narrow_compute(c):
    """the library may legitimately compute this case in float32 (rounding is not modelled: compare at 1e-5)"""
    return any(v in NARROW for v in (c.get("dt") or {}).values())


def rtol_of(c):
    inexact = c["tool"] == "integrate" or (c["tool"] in ("fill", "add") and c.get("method") == "linear")
    return 1e-5 if (inexact and narrow_compute(c)) else 1e-9


def strip_dt(c):
    return {k: v for k, v in c.items() if k != "dt"}


def dtype_defect(c):
    """the case lies in the documented dtype defect class of the unchanged code (notes/C17.md): a positive decreasing tolerance
    handed over as an UNSIGNED numpy scalar — `< -tolerance` wraps around (-uint8(1) = 255), every CDF is flagged.  The model
    (values only) does not describe the code there: the correspondence skips these cases, the property oracle runs and tags them"""
    return c["tool"] in ("decreasing", "adjust") and dt_of(c, "tol") in UNSIGNED and c.get("tol", 0) > 0


def dtype_tags(c):
    """failure tags of the storage-dtype class (a known-finding entry can match exactly these)"""
    if not c.get("dt"):
        return {}
    t = {"dtype_class": "unsigned" if has_unsigned(c) else "signed-or-float32"}
    if dtype_defect(c):
        t["defect"] = "unsigned-scalar-tolerance"
    for k, v in c["dt"].items():
        t["dt_" + k] = v
    return t


def batch_suffix(c):
    return "" if not c.get("dt") else ("-unsigned" if has_unsigned(c) else "-dtype")


def adjust_dtype_tie(c, impl, impl64):
    """adjust: an exact CRPS tie between candidates may be broken differently by float32 / float64 rounding"""
    return narrow_compute(c) and not cc.float_exact(c) and not isinstance(impl, dict) and not isinstance(impl64, dict)


def mk17(c, tdim, rows=None, vkey="v"):
    """cc.mk with the ordinates / threshold coordinate stored in the case's dtypes"""
    da = cc.mk(c, tdim, rows=rows)
    vd, td = dt_of(c, vkey), dt_of(c, "t")
    if vd is None and td is None:
        return da
    coords = {d: (stored(da[d].values, td) if d == tdim else da[d].values) for d in da.dims}
    return xr.DataArray(np.array(stored(da.values, vd), order="C"), dims=da.dims, coords=coords)


def mk_obs17(c):
    da = cc.mk_obs(c)
    od = dt_of(c, "o")
    if od is None:
        return da
    return xr.DataArray(np.array(stored(da.values, od), order="C"), dims=da.dims, coords={d: da[d].values for d in da.dims})


def _pick(rng, unsigned, ints=True, floats=True):
    pool = (["uint8", "uint8", "uint16", "uint16", "int64", "float64", "float32"] if unsigned else
            ["float32", "float32", "int64", "int64", "int32", "int32", "int16", "int8", "float64"])
    return rng.choice([d for d in pool if (ints or not is_int_dt(d)) and (floats or is_int_dt(d))])


def _rep_list(rng, xs, unsigned):
    """a representation of a list argument that holds its values exactly"""
    cands = ["list", "list"]
    if xs and all(fits(x, "pyint") for x in xs):
        cands += ["pyint"] + [d for d in (UNSIGNED + ["int64"] if unsigned else SIGNED) if all(fits(x, d) for x in xs)]
    if xs and not unsigned:
        cands += ["float32"]
    return rng.choice(cands)


def _rep_scalar(rng, x, unsigned):
    if x == int(x):
        return rng.choice(["int", "int", "int", None, "int64", "float32"] + (["uint8", "uint16"] if unsigned and x >= 0 else []))
    return rng.choice([None, None, "float32"])


def _to_int_storage(rng, v, dt, fallback):
    """the value actually stored when an operand drawn as float goes into an integer dtype: floor; NaN cannot be stored"""
    if math.isnan(v):
        v = fallback
    v = float(math.floor(v))
    if dt in UNSIGNED or dt == "bool":
        v = abs(v)
    if dt == "bool":
        v = float(v >= 1)
    return v


def gen_dtype_case(rng, tool, unsigned=False):
    """a well-formed case of `tool` whose operands are stored in integer / float32 dtypes (values adjusted first so that
    they are exactly representable); unsigned=True: at least one operand is uint8 / uint16"""
    c = gen_case(rng, tool, malformed_ok=False, variants=False)
    dt = {}
    if tool == "round":
        vd = rng.choice(UNSIGNED) if unsigned else ("bool" if rng.random() < 0.05 else _pick(rng, False))
        if is_int_dt(vd):
            c["xs"] = [_to_int_storage(rng, x, vd, rng.randint(-6, 6)) for x in c["xs"]]
        dt["v"] = vd
        c["prec"] = rng.choice([0, 1, 2, 4, 2, 1, 3, 0.5, 0.25, 0.125])
        dt["prec"] = _rep_scalar(rng, c["prec"], unsigned)
    elif tool == "observed":
        od = _pick(rng, unsigned)
        if unsigned and od not in UNSIGNED and rng.random() < 0.6:
            od = rng.choice(UNSIGNED)
        if is_int_dt(od):
            c["obs"] = [_to_int_storage(rng, x, od, rng.randint(-2, 4)) for x in c["obs"]]
        dt["o"] = od
        if c["tv"] is not None:
            if rng.random() < (0.6 if is_int_dt(od) else 0.2):
                # fractional threshold values (python floats) next to the stored observations
                pool = [v for v in c["obs"] if not math.isnan(v)] or [0.0]
                c["tv"] = [rng.choice([rng.randint(-8, 16) / 4, rng.choice(pool) + rng.choice([0.5, -0.5, 0.25, -0.25]), rng.choice(pool)])
                           for _ in range(rng.randint(1, 4))]
            else:
                tvd = _pick(rng, unsigned) if rng.random() < 0.5 else None
                if tvd is not None and is_int_dt(tvd):
                    c["tv"] = [_to_int_storage(rng, x, tvd, 1) for x in c["tv"]]
                dt["tv"] = tvd if tvd is not None else _rep_list(rng, c["tv"], unsigned)
        if unsigned and od not in UNSIGNED and dt.get("tv") not in UNSIGNED:
            dt["o"] = "uint8"
            c["obs"] = [_to_int_storage(rng, x, "uint8", 2) for x in c["obs"]]
        c["prec"] = rng.choice([0, 0, 0, 0, 1, 2, 1, 0.5, 0.25])   # (a positive precision turns the observations into floats first)
        dt["prec"] = _rep_scalar(rng, c["prec"], unsigned)
    else:
        thr = c["thr"]
        td = _pick(rng, unsigned) if rng.random() < 0.85 else rng.choice(["float32", "float64"])
        r = rng.random()
        if r < 0.45:
            vd = "float32"                                 # k/8 is exact in float32
        elif r < 0.8:                                      # 0/1 step CDFs (integrate: 0..8) in an integer dtype / bool
            vd = rng.choice(UNSIGNED + ["int64"] if unsigned else SIGNED + ["int64", "bool"])
        else:
            vd = _pick(rng, unsigned)
        if unsigned and td not in UNSIGNED and vd not in UNSIGNED:
            if rng.random() < 0.6:
                td = rng.choice(UNSIGNED)
            else:
                vd = rng.choice(UNSIGNED)
        if is_int_dt(td):
            if any(t != int(t) for t in thr):
                thr = [2 * t for t in thr]
            if td in UNSIGNED:
                lo = min(thr) - rng.choice([0, 0, 1, 2])
                thr = [t - lo for t in thr]
        c["thr"] = thr
        if is_int_dt(vd):
            scale = 8 if (tool == "integrate" and vd != "bool" and rng.random() < 0.7) else 1
            rows = []
            for r in c["rows"]:
                if tool == "decreasing" and any(math.isnan(v) for v in r):
                    r = [0.0 if math.isnan(v) else v for v in r]
                rows.append([float(rng.randint(0, 1)) * scale if math.isnan(v) else
                             (v * 8 if scale == 8 else float(v >= 0.5)) for v in r])
            c["rows"] = rows
        dt["t"], dt["v"] = td, vd
        lo, hi = int(min(thr)) - 3, int(max(thr)) + 3
        if tool == "add":
            m = rng.randint(0, 4)
            c["new"] = [rng.choice([rng.randint(2 * lo, 2 * hi) / 2, rng.choice(thr), rng.randint(lo, hi) * 1.0]) for _ in range(m)]
            if rng.random() < 0.5 and is_int_dt(td) and m:
                pass                                       # half-valued new thresholds as python floats against an integer coordinate
            else:
                nd = _pick(rng, unsigned) if rng.random() < 0.4 else None
                if nd is not None and is_int_dt(nd):
                    c["new"] = [_to_int_storage(rng, x, nd, 0) for x in c["new"]]
                dt["new"] = nd if nd is not None else _rep_list(rng, c["new"], unsigned)
                if dt["new"] in ("list", "float32") and c["new"] and rng.random() < 0.3:
                    c["new"][rng.randrange(len(c["new"]))] = cc.NAN
            if c["new"] and rng.random() < (0.5 if td == "float32" else 0.25):
                # requested thresholds are float64 decimals (not representable in a float32 / integer coordinate's dtype)
                dt.pop("new", None)
                decimal_new(rng, c)
        if tool == "decreasing":
            c["tol"] = rng.choice([0, 0, 0.125, 0.25, 0.5, 1, 1, 2])
            if rng.random() < 0.5:
                tds = [cc.total_decrease(r) for r in c["rows"] if not any(math.isnan(v) for v in r)]
                if tds:
                    c["tol"] = max(0.0, rng.choice(tds) + rng.choice([0, 0, -0.125, 0.125]))
            dt["tol"] = _rep_scalar(rng, c["tol"], unsigned)
        if tool == "integrate":
            c["pw"] = None
            if rng.random() < 0.5:
                pd_ = _pick(rng, unsigned)
                pool = [0.0, 1.0, 1.0, 2.0, 3.0] if is_int_dt(pd_) else [0.0, 1.0, 0.5, 0.25, 2.0, 1.0, cc.NAN]
                c["pw"] = [[rng.choice(pool) for _ in r] for r in c["rows"]]
                dt["pw"] = pd_
        if tool == "adjust":
            c["tol"] = rng.choice([0, 0, 0, 0.125, 0.25, 0.5, 1])
            if rng.random() < 0.5:   # the tolerance exactly on / next to the total decrease of some row
                tds = [cc.total_decrease(r) for r in c["rows"] if not any(math.isnan(v) for v in r)]
                if tds:
                    c["tol"] = max(0.0, rng.choice(tds) + rng.choice([0, 0, -0.125, 0.125]))
            dt["tol"] = _rep_scalar(rng, c["tol"], unsigned)
            c.update(cc.gen_obs(rng, c))
            od = _pick(rng, unsigned)
            if is_int_dt(td) and rng.random() < 0.5:   # fractional observations against an integer threshold coordinate
                od = rng.choice(["float32", "float64"])
                c["obs_vals"] = [v if math.isnan(v) else v + rng.choice([0, 0.5, 0.5, 0.25, -0.5]) for v in c["obs_vals"]]
            if is_int_dt(od):
                c["obs_vals"] = [_to_int_storage(rng, x, od, rng.choice(thr)) for x in c["obs_vals"]]
            dt["o"] = od
            c["additional"] = rng.choice([None, None, [], [rng.randint(2 * lo, 2 * hi) / 2 for _ in range(rng.randint(1, 3))]])
            if c["additional"]:
                if rng.random() < 0.5:
                    c["additional"] = [_to_int_storage(rng, x, "uint8" if unsigned else "int64", 0) for x in c["additional"]]
                dt["add"] = _rep_list(rng, c["additional"], unsigned)
    c["dt"] = {k: v for k, v in dt.items() if v is not None}
    if tool == "add" and rng.random() < 0.2 and all(c["dt"].get(k) in (None, "float32", "float64", "list") for k in ("t", "new")):
        apply_scale(c, rng.choice(SCALES))   # (k/2 * 2^-30 is still exact in float32)
    return c


def enum_cdfs(maxlen, pool):
    for n in range(2, maxlen + 1):
        for t in itertools.product(pool, repeat=n):
            yield list(t)


# ----------------------------------------------------------------------------- implementation
def run_impl(c):
    """returns a JSON-able result in the shape of the model's answer, or {"err": class}"""
    from scores.processing import cdf as C
    from scores.probability import crps_impl
    tool = c["tool"]
    try:
        with np.errstate(all="ignore"):
            if tool == "round":
                da = xr.DataArray(stored(c["xs"], dt_of(c, "v")), dims=["x"])
                return [float(v) for v in C.round_values(da, as_scalar(c["prec"], dt_of(c, "prec")),
                                                         final_round_decpl=c["decpl"]).values]
            if tool == "observed":
                tdim = cc.fresh("thre", "shold")
                dims = ["p", "q"][:len(c["obs_shape"])]
                da = xr.DataArray(stored(c["obs"], dt_of(c, "o")).reshape(c["obs_shape"]), dims=dims)
                r = C.observed_cdf(da, tdim, threshold_values=as_arg(c["tv"], dt_of(c, "tv")), include_obs_in_thresholds=c["include"],
                                   precision=as_scalar(c["prec"], dt_of(c, "prec")))
                r = r.transpose(*dims, tdim)
                g = [float(v) for v in r[tdim].values]
                if not g:
                    return {"grid": g, "rows": [[] for _ in c["obs"]]}
                return {"grid": g, "rows": np.asarray(r.values, dtype=float).reshape(-1, len(g)).tolist()}
            tdim = cc.fresh("thr", "eshold")
            da = mk17(c, tdim)
            if tool == "propagate":
                return cc.rows_of(C.propagate_nan(da, tdim), c, tdim)
            if tool == "integrate":
                if c.get("pw") is not None:
                    r = C.integrate_square_piecewise_linear(da, tdim, piece_weight=mk17(c, tdim, rows=c["pw"], vkey="pw"))
                else:
                    r = C.integrate_square_piecewise_linear(da, tdim)
                return cc.scalars_of(r, c)
            if tool == "fill":
                return cc.rows_of(C.fill_cdf(da, tdim, c["method"], c["min_nonnan"]), c, tdim)
            if tool == "add":
                r = C.add_thresholds(da, tdim, as_arg(c["new"], dt_of(c, "new")), c["method"], min_nonnan=c["min_nonnan"])
                return {"grid": [float(v) for v in r[tdim].values], "rows": cc.rows_of(r, c, tdim)}
            if tool == "decreasing":
                r = C.decreasing_cdfs(da, tdim, as_scalar(c["tol"], dt_of(c, "tol")))
                return [bool(v) for v in cc.scalars_of(r, c)]
            if tool == "envelope":
                r = C.cdf_envelope(da, tdim)
                out = {"grid": [float(v) for v in r[tdim].values]}
                for k in ("original", "upper", "lower"):
                    out[k] = cc.rows_of(r.sel(cdf_type=k, drop=True), c, tdim)
                return out
            if tool == "adjust":
                obs = mk_obs17(c)
                r = crps_impl.adjust_fcst_for_crps(da, tdim, obs, decreasing_tolerance=as_scalar(c["tol"], dt_of(c, "tol")),
                                                   additional_thresholds=as_arg(c["additional"], dt_of(c, "add")),
                                                   fcst_fill_method=c["fill"],
                                                   integration_method=c["integ"])
                if list(map(float, r[tdim].values)) != list(map(float, c["thr"])):
                    return {"err": "Other:threshold-coordinates-changed"}
                return cc.rows_of(r, c, tdim)
    except Exception as ex:  # noqa: BLE001
        return {"err": core.exc_class(ex)}
    raise AssertionError(tool)


def model_op(c):
    t = c["tool"]
    S = core.fl_str
    L = lambda xs: [S(x) for x in xs]
    M = lambda rows: [L(r) for r in rows]
    if t == "round":
        return {"op": "c17.round", "args": {"xs": L(c["xs"]), "prec": S(c["prec"]), "decpl": c["decpl"]}}
    if t == "observed":
        return {"op": "c17.observed", "args": {"obs": L(c["obs"]), "tv": None if c["tv"] is None else L(c["tv"]),
                                              "include": c["include"], "prec": S(c["prec"])}}
    a = {"thr": L(c["thr"]), "rows": M(c["rows"])}
    if t == "integrate" and c.get("pw") is not None:
        return {"op": "c17.integrate", "args": dict(a, pw=M(c["pw"]))}
    if t in ("propagate", "integrate", "envelope"):
        return {"op": "c17." + t, "args": a}
    if t == "fill":
        return {"op": "c17.fill", "args": dict(a, method=c["method"], min_nonnan=c["min_nonnan"])}
    if t == "add":
        return {"op": "c17.add", "args": dict(a, new=L(c["new"]), method=c["method"], min_nonnan=c["min_nonnan"])}
    if t == "decreasing":
        return {"op": "c17.decreasing", "args": dict(a, tol=S(c["tol"]))}
    if t == "adjust":
        return {"op": "c17.adjust", "args": dict(a, obs=L(cc.obs_per_row(c)), tol=S(c["tol"]), additional=L(c["additional"] or []),
                                                fill=c["fill"], integ=c["integ"])}
    raise AssertionError(t)


def spec_op(c):
    S = core.fl_str
    new = [x for x in (c.get("new") or []) if not math.isnan(x)]
    return {"op": "c17.spec", "args": {"thr": [S(x) for x in c["thr"]], "rows": [[S(x) for x in r] for r in c["rows"]],
                                      "tol": S(max(0, c.get("tol", 0))), "new": [S(x) for x in new],
                                      "min_nonnan": c.get("min_nonnan", 2)}}


def malformed(c):
    if c.get("prec", 0) < 0 or c.get("tol", 0) < 0:
        return True
    if c.get("method") not in (None, "linear", "step", "forward", "backward", "none"):
        return True
    if "min_nonnan" in c and c["method"] != "none" and (c["min_nonnan"] < 1 or (c["method"] == "linear" and c["min_nonnan"] < 2)):
        return True
    if c["tool"] == "observed" and all(math.isnan(v) for v in c["obs"]) and \
            (c["tv"] is None or all(math.isnan(v) for v in c["tv"])):
        return True   # documented ValueError: nothing to build thresholds from
    if c.get("oob") and (c["tool"] in ("fill", "adjust") or (c["tool"] == "add" and c["method"] != "none")):
        return True
    return False


def nontrivial(c):
    if malformed(c):
        return False
    vals = c.get("xs") or c.get("obs") if c["tool"] in ("round", "observed") else [v for r in c["rows"] for v in r]
    return any(not math.isnan(v) for v in vals)


def scale_tags(ctx, c):
    if c.get("scale") is not None:
        ctx.tag("threshold-scale:2^%d" % c["scale"])
    if c.get("decimal_new"):
        ctx.tag("new-thresholds-decimal")
        if dt_of(c, "t") == "float32":
            ctx.tag("new-thresholds-not-representable-in-float32-coordinate")


def rel_close(a, b, rtol):
    """a: implementation float, b: exact Fraction / NaN; purely relative (the abscissa scale may be 2^-30)"""
    if isinstance(b, float) and math.isnan(b):
        return math.isnan(a)
    if math.isnan(a) or math.isinf(a):
        return False
    return abs(Fraction(a) - Fraction(b)) <= Fraction(rtol) * abs(Fraction(b))


def same_grid(impl_grid, spec_grid):
    """threshold coordinates are compared EXACTLY: the requested float64 thresholds themselves must be in the result"""
    if not isinstance(spec_grid, list) or len(impl_grid) != len(spec_grid):
        return False
    return all(core.close(a, b, rtol=0, atol=0) for a, b in zip(impl_grid, spec_grid))


def tags_of(ctx, c):
    ctx.tag("tool:" + c["tool"])
    for k, v in sorted((c.get("dt") or {}).items()):
        ctx.tag("dtype:%s=%s" % (k, v))
    if malformed(c):
        ctx.tag("malformed")
    scale_tags(ctx, c)
    if "rows" in c:
        flat = [v for r in c["rows"] for v in r]
        if any(math.isnan(v) for v in flat):
            ctx.tag("has-nan")
        if any(cc.total_decrease([v for v in r if not math.isnan(v)]) > 0 for r in c["rows"]):
            ctx.tag("has-decreasing-run")
        if any(a == b for r in c["rows"] for a, b in zip(r, r[1:])):
            ctx.tag("has-plateau")
        if len(c["extra"]) > 0:
            ctx.tag("extra-dims:%d" % len(c["extra"]))
        if c["order"].index("T") != len(c["order"]) - 1:
            ctx.tag("threshold-dim-not-last")


# ----------------------------------------------------------------------------- comparison
def same(impl, model, rtol=1e-9):
    """impl result (floats) vs model result (protocol strings), both in the model's shape"""
    if isinstance(model, dict) and "fail" in model:
        return False
    if isinstance(impl, dict) and "err" in impl:
        return isinstance(model, dict) and model.get("err") == impl["err"]
    if isinstance(model, dict) and "err" in model:
        return False
    if isinstance(model, dict):
        return set(k for k in model) >= set(impl) and all(same(impl[k], model[k], rtol) for k in impl)
    if isinstance(model, list):
        return isinstance(impl, list) and len(impl) == len(model) and all(same(a, b, rtol) for a, b in zip(impl, model))
    if isinstance(model, bool) or isinstance(impl, bool):
        return bool(impl) == bool(model)
    return core.close(impl, model, rtol=rtol)


def same_runs(a, b, rtol=1e-9):
    """two implementation results (same values, different storage dtypes)"""
    if isinstance(a, dict) and "err" in a or isinstance(b, dict) and "err" in b:
        return isinstance(a, dict) and isinstance(b, dict) and a.get("err") == b.get("err")
    if isinstance(a, dict) or isinstance(b, dict):
        return isinstance(a, dict) and isinstance(b, dict) and set(a) == set(b) and all(same_runs(a[k], b[k], rtol) for k in a)
    if isinstance(a, list) or isinstance(b, list):
        return isinstance(a, list) and isinstance(b, list) and len(a) == len(b) and all(same_runs(x, y, rtol) for x, y in zip(a, b))
    if isinstance(a, bool) or isinstance(b, bool):
        return bool(a) == bool(b)
    return core.close_ff(a, b, rtol=rtol)


def adjust_candidates(c, det):
    """model detail of adjust: per row (decreasing?, [rows of original, upper, lower], [crps totals])"""
    return det


def correspondence(ctx):
    rng = ctx.rng
    cases = []
    per_tool = ctx.n(160, 1800)
    for tool in TOOLS:
        k = per_tool * (2 if tool in ("fill", "add", "envelope", "adjust") else 1)
        for _ in range(k):
            cases.append(gen_case(rng, tool))
    nd = ctx.n(30, 200)
    for tool in TOOLS:             # the same tools on operands stored as int64 / int32 / int16 / int8 / bool / float32 ...
        k = nd * (3 if tool == "adjust" else 1)
        for _ in range(k):
            cases.append(gen_dtype_case(rng, tool))
        for _ in range(max(1, k // 3)):   # ... and, in batches of their own, uint8 / uint16
            cases.append(gen_dtype_case(rng, tool, unsigned=True))
    if ctx.thorough:
        pool = [0.0, 0.25, 0.5, 1.0, cc.NAN]
        n0 = len(cases)
        for xs in enum_cdfs(4, pool):
            thr = [float(i) for i in range(len(xs))]
            base = {"thr": thr, "rows": [xs], "extra": {}, "order": ["T"], "oob": False}
            cases.append(dict(base, tool="envelope"))
            for m in ("linear", "step", "forward", "backward"):
                cases.append(dict(base, tool="add", method=m, min_nonnan=2, new=[0.5, 1.5, -1.0, float(len(xs))]))
            if not any(math.isnan(v) for v in xs):
                cases.append(dict(base, tool="decreasing", tol=0.25))
                cases.append(dict(base, tool="adjust", tol=0.0, obs_dims=[], obs_vals=[rng.choice([0.5, 1.0, 2.5, -1.0])],
                                  additional=None, fill="linear", integ=rng.choice(["exact", "trapz"])))
        ctx.exhaustive.append(f"all CDFs of length 2..4 over {{0,1/4,1/2,1,NaN}}: envelope, add_thresholds x 4 methods, "
                              f"decreasing, adjust ({len(cases) - n0} cases)")
    models = core.run_driver("C17", [model_op(c) for c in cases])
    for c, m in zip(cases, models):
        batch = "impl-vs-model" + batch_suffix(c) + ":" + c["tool"]
        ctx.case(batch, c, nontrivial=nontrivial(c))
        tags_of(ctx, c)
        if dtype_defect(c):
            ctx.tag("dtype-defect-class-skipped-by-correspondence")
            continue
        impl = run_impl(c)
        if isinstance(impl, dict) and "err" in impl:
            ctx.tag("raises:" + impl["err"])
        ok = same(impl, m["rows"] if c["tool"] == "adjust" and isinstance(m, dict) and "rows" in m else m, rtol_of(c))
        if not ok and c["tool"] == "adjust" and isinstance(m, dict) and "rows" in m and not (isinstance(impl, dict)):
            # an exact CRPS tie between candidates may be broken by float rounding
            ok = adjust_tie_ok(c, impl, m, ctx)
        if not ok:
            ctx.fail(batch, "correspondence", c["tool"], "value", c, observed=impl, expected=m,
                     tags=dict({"tool": c["tool"]}, **dtype_tags(c)))


def adjust_tie_ok(c, impl, m, ctx):
    if cc.float_exact(c):
        return False
    for i, row in enumerate(impl):
        if same(row, m["rows"][i]):
            continue
        tot = [core.parse_fl(x) for x in m["crps"][i]]
        if any(core.is_nan(t) for t in tot):
            return False
        mx = max(tot)
        tied = [k for k in range(3) if abs(tot[k] - mx) <= Fraction(1, 10 ** 9) * abs(mx)]
        if not any(same(row, m["cands"][i][k]) for k in tied):
            return False
    ctx.tag("adjust-exact-tie-broken-by-rounding-accepted")
    return True


# ----------------------------------------------------------------------------- the property itself
def le(a, b, tol=1e-12):
    return a <= b + tol


def check_case(ctx, c, spec, batch):
    """the statement of C17 on the implementation's output; returns number of failures recorded"""
    n0 = len(ctx.failures)
    tool = c["tool"]
    impl = run_impl(c)

    def bad(sig, obs=None, exp=None, thm=None):
        ctx.fail(batch, "property", tool, sig, c, observed=obs, expected=exp, tags=dict({"tool": tool}, **dtype_tags(c)), theorem=thm)

    rtol = rtol_of(c)
    if c.get("dt"):
        # relation: the same values stored as float64 give the same result (the result is a function of the values)
        impl64 = run_impl(strip_dt(c))
        if not same_runs(impl, impl64, rtol) and not (tool == "adjust" and adjust_dtype_tie(c, impl, impl64)):
            bad("result-depends-on-storage-dtype", impl, impl64)

    if isinstance(impl, dict) and "err" in impl:
        if not malformed(c) and not (tool == "decreasing" and cc.partial_nan_rows(c)):
            bad("unexpected-exception", impl["err"], "a value")
        return len(ctx.failures) - n0
    if malformed(c):
        if tool in ("round", "observed", "fill", "add", "decreasing", "adjust") and not (c.get("oob") and tool == "adjust"):
            bad("malformed-input-accepted", "a value", "ValueError")
        return len(ctx.failures) - n0
    if tool == "round":
        p = Fraction(c["prec"])
        for x, r in zip(c["xs"], impl):
            if math.isnan(x):
                if not math.isnan(r):
                    bad("nan-not-kept", r, "nan")
                continue
            if p == 0:
                if r != x:
                    bad("changed-without-precision", r, x)
                continue
            q, rr = Fraction(x), Fraction(r)
            if c["decpl"] < 7:
                continue   # the final decimal rounding dominates; covered by the correspondence
            n = rr / p
            d = abs(q - rr)
            if n.denominator != 1 or d * 2 > p or (d * 2 == p and n.numerator % 2 != 0):
                bad("not-nearest-multiple-ties-even", r, f"nearest multiple of {p} to {q}", "roundQ_nearest")
    elif tool == "propagate":
        for xs, rs in zip(c["rows"], impl):
            want = [cc.NAN] * len(xs) if any(math.isnan(v) for v in xs) else xs
            if not all(core.close_ff(a, b, 0, 0) for a, b in zip(rs, want)):
                bad("propagate-nan", rs, want, "propagateNan_spec")
    elif tool == "observed":
        obs = c["obs"]
        p = Fraction(c["prec"])
        robs = [x if (math.isnan(x) or p == 0) else float(cc.round_half_even(Fraction(x) / p) * p) for x in obs]
        want_g = sorted(set(([v for v in robs if not math.isnan(v)] if c["include"] else []) +
                            [v for v in (c["tv"] or []) if not math.isnan(v)]))
        if impl["grid"] != want_g:
            bad("observed-thresholds", impl["grid"], want_g)
        else:
            for o, row in zip(robs, impl["rows"]):
                want = [cc.NAN if math.isnan(o) else (1.0 if t >= o else 0.0) for t in want_g]
                if not all(core.close_ff(a, b, 0, 0) for a, b in zip(row, want)):
                    bad("observed-cdf-is-not-indicator-of-t>=obs", row, want, "observedRow_spec")
    elif tool == "integrate":
        thr = [Fraction(t) for t in c["thr"]]
        for ri, (xs, r) in enumerate(zip(c["rows"], impl)):
            tot, any_piece = Fraction(0), False
            for k in range(len(xs) - 1):
                pwk = 1.0 if c.get("pw") is None else c["pw"][ri][k + 1]
                if math.isnan(xs[k]) or math.isnan(xs[k + 1]) or math.isnan(pwk):
                    continue
                a, b = Fraction(xs[k]), Fraction(xs[k + 1])
                tot += Fraction(pwk) * (thr[k + 1] - thr[k]) * (a * a + a * b + b * b) / 3
                any_piece = True
            want = tot if any_piece else cc.NAN
            if not (core.close(r, want, rtol=rtol) and (c.get("scale") is None or rel_close(r, want, rtol))):
                bad("integral-of-square", r, want, "piece_eq")
    elif tool in ("fill", "add"):
        m = c["method"]
        want_rows = spec[m] if m != "none" else None
        rows = impl["rows"] if tool == "add" else impl
        if tool == "add":
            if not same_grid(impl["grid"], spec["grid"]):
                bad("thresholds-not-the-sorted-union", impl["grid"], spec["grid"])
                return len(ctx.failures) - n0
            grid = impl["grid"]
        else:
            grid = c["thr"]
        for i, (xs, rs) in enumerate(zip(c["rows"], rows)):
            given = {t: v for t, v in zip(c["thr"], xs) if not math.isnan(v)}
            blank = m != "none" and len(given) < c["min_nonnan"]
            for t, v in zip(grid, rs):
                if blank:
                    if not math.isnan(v):
                        bad("too-few-points-not-blanked", rs, "all NaN", "fillRow_blank")
                        break
                    continue
                if t in given and v != given[t]:
                    bad("given-ordinate-changed", rs, xs, "fillRow_keeps")
                    break
                if t not in given and not math.isnan(v) and not (0 <= v <= 1):
                    bad("filled-value-outside-unit-interval", rs, "[0,1]", "fillRow_unit")
                    break
            if want_rows is not None and not same(rs, want_rows[i], rtol):
                bad("fill-method-" + m, rs, want_rows[i], "fillRow_eq_spec")
            if m == "none":
                for t, v in zip(grid, rs):
                    if (t in given) != (not math.isnan(v)):
                        bad("none-must-not-fill", rs, xs)
                        break
    elif tool == "decreasing":
        if cc.partial_nan_rows(c):
            bad("partial-nan-row-accepted", impl, "ValueError")
        else:
            if not same(impl, spec["decreasing"]):
                bad("flag-differs-from-total-decrease>tol", impl, spec["decreasing"], "decreasingRow_iff")
    elif tool == "envelope":
        if not same(impl["upper"], spec["upper"]):
            bad("upper-is-not-the-running-maximum", impl["upper"], spec["upper"], "upperRow_eq_spec")
        if not same(impl["lower"], spec["lower"]):
            bad("lower-is-not-the-reverse-running-minimum", impl["lower"], spec["lower"], "lowerRow_eq_spec")
        for o, u, l in zip(impl["original"], impl["upper"], impl["lower"]):
            fo = [(a, b, d) for a, b, d in zip(o, u, l)]
            if any(math.isnan(a) != math.isnan(b) or math.isnan(a) != math.isnan(d) for a, b, d in fo):
                bad("nan-positions-not-preserved", [u, l], o, "upperRow_isNan")
                continue
            v = [(a, b, d) for a, b, d in fo if not math.isnan(a)]
            if any(not (le(d, a) and le(a, b)) for a, b, d in v):
                bad("does-not-bracket", [l, u], o, "lower_le_upper_ge")
            if any(not le(x[1], y[1]) or not le(x[2], y[2]) for x, y in zip(v, v[1:])):
                bad("envelope-decreases", [l, u], o, "upper_mono")
            if all(le(x[0], y[0], 0) for x, y in zip(v, v[1:])) and any(a != b or a != d for a, b, d in v):
                bad("envelopes-differ-on-nondecreasing-input", [l, u], o, "envelope_of_mono")
        srt = sorted(range(len(c["thr"])), key=lambda k: c["thr"][k])
        want_o = [[r[k] for k in srt] for r in c["rows"]]
        if not all(core.close_ff(a, b, 0, 0) for x, y in zip(impl["original"], want_o) for a, b in zip(x, y)):
            bad("original-changed", impl["original"], want_o)
    elif tool == "adjust":
        check_adjust(ctx, c, impl, spec, bad)
    return len(ctx.failures) - n0


def check_adjust(ctx, c, impl, spec, bad):
    from scores.processing import cdf as C
    from scores.probability import crps_cdf
    tdim = cc.fresh("thr", "eshold")
    prop = [[cc.NAN] * len(r) if any(math.isnan(v) for v in r) else list(r) for r in c["rows"]]
    flags = spec["decreasing"]
    cprop = dict(c, rows=prop)
    env = C.cdf_envelope(cc.mk(cprop, tdim), tdim)
    cands = [cc.rows_of(env.sel(cdf_type=k, drop=True), c, tdim) for k in ("original", "upper", "lower")]
    if not any(flags):
        if not all(core.close_ff(a, b, 0, 0) for x, y in zip(impl, prop) for a, b in zip(x, y)):
            bad("changed-although-nothing-decreases", impl, prop, "adjust_unchanged")
        return
    kw = dict(threshold_dim=tdim, additional_thresholds=c["additional"], fcst_fill_method=c["fill"],
              integration_method=c["integ"], preserve_dims=[d for d in sorted(c["extra"])])
    obs = cc.mk_obs(c)
    try:
        with np.errstate(all="ignore"):
            score = lambda rows: cc.scalars_of(crps_cdf(cc.mk(dict(c, rows=rows), tdim), obs, **kw)["total"], c)
            s_adj = score(impl)
            s_c = [score(x) for x in cands]
    except Exception as ex:  # noqa: BLE001
        bad("crps-of-adjusted-raises", core.exc_class(ex), "a value")
        return
    for i, row in enumerate(impl):
        eq = [all(core.close_ff(a, b, 0, 0) for a, b in zip(row, cands[k][i])) for k in range(3)]
        if not flags[i]:
            if not eq[0]:
                bad("non-decreasing-case-changed", row, prop[i], "adjust_unchanged")
            continue
        if not any(eq):
            bad("result-is-none-of-original-upper-lower", row, [x[i] for x in cands], "adjust_mem")
            continue
        tot = [s[i] for s in s_c]
        if any(math.isnan(t) for t in tot):
            if not eq[0]:
                bad("nan-crps-case-changed", row, prop[i])
            continue
        # relative to the CRPS values themselves: on a fine abscissa scale (2^-24) the three CRPS differ by 1e-8 and the
        # largest must still be chosen (exact / trapz CRPS of these inputs carries a relative rounding error of ~1e-15)
        scale = max(abs(t) for t in tot)
        if s_adj[i] < tot[0] - 1e-9 * scale:
            bad("adjusted-crps-smaller-than-original", s_adj[i], tot[0], "adjust_never_flatters")
        if s_adj[i] < max(tot) - 1e-9 * scale:
            bad("adjusted-is-not-the-largest-crps", s_adj[i], max(tot), "adjust_argmax")
        elif cc.float_exact(c):
            first = min(k for k in range(3) if tot[k] == max(tot))
            if not eq[first]:
                bad("tie-not-resolved-in-order-original-upper-lower", row, cands[first][i], "idxmax3_first")


ORACLE_TOOLS = ["round", "propagate", "observed", "integrate", "fill", "add", "decreasing", "envelope", "adjust"]


def oracle(ctx, boost):
    rng = ctx.rng
    mult = 5 if boost else 1
    cases = []
    per_tool = ctx.n(100, 900) * mult
    for tool in ORACLE_TOOLS:
        k = per_tool * (2 if tool in ("add", "envelope", "adjust") else 1)
        for _ in range(k):
            cases.append(gen_case(rng, tool, malformed_ok=rng.random() < 0.15))
    nd = ctx.n(30, 150) * mult
    for tool in ORACLE_TOOLS:
        k = nd * (3 if tool == "adjust" else 1)
        for _ in range(k):
            cases.append(gen_dtype_case(rng, tool))
        for _ in range(max(1, k // 3)):
            cases.append(gen_dtype_case(rng, tool, unsigned=True))
    if ctx.thorough or boost:
        pool = [0.0, 0.25, 0.5, 1.0, cc.NAN]
        for xs in enum_cdfs(4 if ctx.thorough else 3, pool):
            thr = [float(i) for i in range(len(xs))]
            base = {"thr": thr, "rows": [xs], "extra": {}, "order": ["T"], "oob": False}
            cases.append(dict(base, tool="envelope"))
            cases.append(dict(base, tool="add", method=rng.choice(["linear", "step", "forward", "backward"]), min_nonnan=2,
                              new=[0.5, 1.5, -1.0, float(len(xs))]))
            if not any(math.isnan(v) for v in xs):
                cases.append(dict(base, tool="decreasing", tol=rng.choice([0.0, 0.25, 0.5])))
                for o in (0.5, 2.0, -1.0):
                    cases.append(dict(base, tool="adjust", tol=0.0, obs_dims=[], obs_vals=[o], additional=None,
                                      fill=rng.choice(["linear", "step"]), integ=rng.choice(["exact", "trapz"])))
    need = [c for c in cases if "rows" in c]
    specs = core.run_driver("C17", [spec_op(c) for c in need])
    smap = {id(c): s for c, s in zip(need, specs)}
    for c in cases:
        batch = "property" + batch_suffix(c) + ":" + c["tool"]
        ctx.case(batch, c, nontrivial=nontrivial(c))
        for k, v in sorted((c.get("dt") or {}).items()):
            ctx.tag("dtype:%s=%s" % (k, v))
        scale_tags(ctx, c)
        check_case(ctx, c, smap.get(id(c)), batch)


def replay(ctx, payload):
    c = payload["case"]
    c = cc.decode_case(c)
    ctx2 = core.Ctx("C17", "quick", 0)
    if payload.get("kind") == "correspondence":
        m = core.run_driver("C17", [model_op(c)])[0]
        return not same(run_impl(c), m["rows"] if c["tool"] == "adjust" and isinstance(m, dict) and "rows" in m else m)
    spec = core.run_driver("C17", [spec_op(c)])[0] if "rows" in c else None
    return check_case(ctx2, c, spec, "replay") > 0
