"""
Harness core: exact-number protocol, Lean build / driver / audit plumbing, evidence writer,
violation and known-finding protocol (DESIGN.md §5).
"""
from __future__ import annotations

import fcntl
import hashlib
import json
import math
import os
import random
import re
import subprocess
import sys
import time
from fractions import Fraction

VERIF = os.path.dirname(os.path.dirname(os.path.dirname(os.path.abspath(__file__))))
LEAN_DIR = os.path.join(VERIF, "lean")
REPO = os.environ.get("SCORES_REPO", "/repo")
EVID = os.path.join(VERIF, "evidence")
REPLAYS = os.path.join(EVID, "replays")
STD_AXIOMS = {"propext", "Classical.choice", "Quot.sound"}
FORBIDDEN = re.compile(r"\bsorry\b|\badmit\b|^axiom |native_decide|bv_decide|implemented_by|unsafe |maxHeartbeats 0")

NAN = float("nan")
INF = float("inf")


# ----------------------------------------------------------------------------- exact numbers
def fl_str(x) -> str:
    """python number -> protocol string (exact)"""
    if isinstance(x, str):
        return x
    if isinstance(x, bool):
        return "1" if x else "0"
    if isinstance(x, Fraction):
        return str(x.numerator) if x.denominator == 1 else f"{x.numerator}/{x.denominator}"
    if isinstance(x, int):
        return str(x)
    x = float(x)
    if math.isnan(x):
        return "nan"
    if math.isinf(x):
        return "inf" if x > 0 else "-inf"
    fr = Fraction(x)
    return str(fr.numerator) if fr.denominator == 1 else f"{fr.numerator}/{fr.denominator}"


def parse_fl(s):
    """protocol string -> Fraction | float('nan'|'inf'|'-inf')"""
    if s == "nan":
        return NAN
    if s == "inf":
        return INF
    if s == "-inf":
        return -INF
    return Fraction(s)


def to_float(v):
    return float(v)


def is_nan(v):
    return isinstance(v, float) and math.isnan(v)


def close(impl, model, rtol=1e-9, atol=1e-12) -> bool:
    """impl: float from the implementation; model: Fraction or special float from the model"""
    try:
        impl = float(impl)
    except (TypeError, ValueError):
        return False
    if isinstance(model, str):
        model = parse_fl(model)
    if is_nan(model):
        return math.isnan(impl)
    if isinstance(model, float) and math.isinf(model):
        return impl == model
    if math.isnan(impl) or math.isinf(impl):
        return False
    m = float(model)
    return abs(impl - m) <= atol + rtol * max(1.0, abs(m))


def close_ff(a, b, rtol=1e-9, atol=1e-12) -> bool:
    """two implementation floats (relation oracles)"""
    a = float(a)
    b = float(b)
    if math.isnan(a) or math.isnan(b):
        return math.isnan(a) and math.isnan(b)
    if math.isinf(a) or math.isinf(b):
        return a == b
    return abs(a - b) <= atol + rtol * max(1.0, abs(a), abs(b))


def dyadic(rng: random.Random, lo=-16, hi=16, den=4) -> float:
    """a small dyadic rational: every + - * and comparison on these is exact in float64"""
    return rng.randint(lo * den, hi * den) / den


def exc_class(ex: BaseException) -> str:
    """fold an exception to the small enum used on both sides"""
    if isinstance(ex, ValueError):
        return "ValueError"
    if isinstance(ex, TypeError):
        return "TypeError"
    if isinstance(ex, KeyError):
        return "KeyError"
    return "Other:" + type(ex).__name__


def canon(o):
    """JSON-able canonical form for hashing / samples"""
    if isinstance(o, dict):
        return {str(k): canon(v) for k, v in sorted(o.items(), key=lambda kv: str(kv[0]))}
    if isinstance(o, (list, tuple)):
        return [canon(v) for v in o]
    if isinstance(o, Fraction):
        return fl_str(o)
    if isinstance(o, float):
        return fl_str(o) if (math.isnan(o) or math.isinf(o)) else o
    if isinstance(o, (int, str, bool)) or o is None:
        return o
    try:
        import numpy as np
        if isinstance(o, np.ndarray):
            return canon(o.tolist())
        if isinstance(o, np.generic):
            return canon(o.item())
    except ImportError:
        pass
    return repr(o)


def case_hash(o) -> str:
    return hashlib.sha1(json.dumps(canon(o), sort_keys=True).encode()).hexdigest()[:16]


# ----------------------------------------------------------------------------- Lean plumbing
class BuildLock:
    def __enter__(self):
        os.makedirs(os.path.join(LEAN_DIR, ".lake"), exist_ok=True)
        self.f = open(os.path.join(LEAN_DIR, ".lake", "verif.lock"), "w")
        fcntl.flock(self.f, fcntl.LOCK_EX)
        return self

    def __exit__(self, *a):
        fcntl.flock(self.f, fcntl.LOCK_UN)
        self.f.close()


def _env():
    e = dict(os.environ)
    e.pop("LEAN_PATH", None)
    return e


def run_translator(modules):
    """regenerate Gen/*.lean from the current /repo tree; returns status dict"""
    if not modules:
        return {}
    p = subprocess.run([sys.executable, os.path.join(VERIF, "tools", "translate.py")] + list(modules),
                       capture_output=True, text=True, env=_env())
    if p.returncode != 0:
        return {m: {"status": "inapplicable", "error": p.stderr[-2000:], "functions": {}} for m in modules}
    return json.loads(p.stdout.strip().splitlines()[-1])


def lake_build(targets, timeout=3000):
    """returns (ok, output)"""
    p = subprocess.run(["lake", "build"] + list(targets), cwd=LEAN_DIR, capture_output=True, text=True,
                       env=_env(), timeout=timeout)
    return p.returncode == 0, p.stdout + p.stderr


def failing_decls(build_output: str):
    """names of theorems whose elaboration failed, from lean's error positions"""
    errs = []
    for m in re.finditer(r"error: (\S+?\.lean):(\d+):(\d+)", build_output):
        errs.append((m.group(1), int(m.group(2))))
    names = []
    for path, line in errs:
        full = path if os.path.isabs(path) else os.path.join(LEAN_DIR, path)
        try:
            src = open(full).read().splitlines()
        except OSError:
            continue
        for i in range(min(line, len(src)) - 1, -1, -1):
            mm = re.match(r"\s*(?:private\s+|protected\s+)?(theorem|lemma|def|example|instance)\s*(\S*)", src[i])
            if mm:
                nm = f"{os.path.basename(path)}:{mm.group(2) or 'example@' + str(i + 1)}"
                if nm not in names:
                    names.append(nm)
                break
    return names


def theorem_names(lean_rel_path):
    """(namespace-qualified) names of the theorems stated in a Props file"""
    src = open(os.path.join(LEAN_DIR, lean_rel_path)).read()
    src_nc = re.sub(r"/-.*?-/", "", src, flags=re.S)
    src_nc = re.sub(r"--.*", "", src_nc)
    names = []
    ns = []
    for line in src_nc.splitlines():
        m = re.match(r"\s*namespace\s+(\S+)", line)
        if m:
            ns.append(m.group(1))
            continue
        m = re.match(r"\s*end\s+(\S+)", line)
        if m and ns and ns[-1] == m.group(1):
            ns.pop()
            continue
        m = re.match(r"\s*(?:protected\s+)?theorem\s+(\S+)", line)
        if m:
            names.append(".".join(ns + [m.group(1)]))
    return names


def source_audit(paths):
    """grep for forbidden constructs outside comments; returns list of hits"""
    hits = []
    for rel in paths:
        full = os.path.join(LEAN_DIR, rel)
        if not os.path.exists(full):
            continue
        src = open(full).read()
        src = re.sub(r"/-.*?-/", lambda m: "\n" * m.group(0).count("\n"), src, flags=re.S)
        for i, line in enumerate(src.splitlines(), 1):
            line = re.sub(r"--.*", "", line)
            if FORBIDDEN.search(line):
                hits.append(f"{rel}:{i}: {line.strip()[:120]}")
    return hits


def axiom_audit(module, names, timeout=1200):
    """`#print axioms` for each theorem; returns {name: [axioms]} and raw errors"""
    if not names:
        return {}, ""
    body = f"import {module}\n" + "\n".join(f"#print axioms {n}" for n in names) + "\n"
    tmp = os.path.join(LEAN_DIR, ".lake", f"audit_{module.replace('.', '_')}_{os.getpid()}.lean")
    with open(tmp, "w") as f:
        f.write(body)
    try:
        p = subprocess.run(["lake", "env", "lean", tmp], cwd=LEAN_DIR, capture_output=True, text=True,
                           env=_env(), timeout=timeout)
    finally:
        try:
            os.remove(tmp)
        except OSError:
            pass
    out = p.stdout + p.stderr
    res = {}
    for m in re.finditer(r"'([^']+)' depends on axioms: \[([^\]]*)\]", out, flags=re.S):
        res[m.group(1)] = [a.strip() for a in m.group(2).replace("\n", " ").split(",") if a.strip()]
    for m in re.finditer(r"'([^']+)' does not depend on any axioms", out):
        res[m.group(1)] = []
    return res, ("" if p.returncode == 0 else out[-3000:])


def run_driver(prop: str, ops: list, timeout=3000):
    """pipe ops (list of {"op":..., "args":...}) through lean/drivers/<prop>.lean; returns list of results"""
    if not ops:
        return []
    data = "\n".join(json.dumps(o, separators=(",", ":")) for o in ops) + "\n"
    p = subprocess.run(["lake", "env", "lean", "--run", os.path.join("drivers", prop + ".lean")],
                       cwd=LEAN_DIR, input=data, capture_output=True, text=True, env=_env(), timeout=timeout)
    if p.returncode != 0:
        raise RuntimeError(f"driver {prop} failed: {p.stderr[-2000:]}{p.stdout[-500:]}")
    lines = [ln for ln in p.stdout.splitlines() if ln.strip()]
    if len(lines) != len(ops):
        raise RuntimeError(f"driver {prop}: {len(ops)} ops but {len(lines)} results; stderr={p.stderr[-1000:]}")
    return [json.loads(ln) for ln in lines]


# ----------------------------------------------------------------------------- run context
class Ctx:
    """per-run state shared by a property module's correspondence / oracle functions"""

    def __init__(self, prop, tier, seed):
        self.prop = prop
        self.tier = tier
        self.seed = seed
        self.rng = random.Random(seed * 1000003 + sum(map(ord, prop)))
        self.t0 = time.time()
        self.evaluations = 0
        self.hashes = set()
        self.nontrivial = 0
        self.samples = []
        self.hist = {}
        self.failures = []          # list of dict (see fail())
        self.notes = []
        self.batches = {}           # name -> {"cases": n, "failed": k}
        self.exhaustive = []

    @property
    def thorough(self):
        return self.tier == "thorough"

    def n(self, quick, thorough):
        return thorough if self.thorough else quick

    def tag(self, key, k=1):
        self.hist[key] = self.hist.get(key, 0) + k

    def case(self, batch, desc, nontrivial=True, sample_every=None):
        """account one explored case; desc must be JSON-able"""
        self.evaluations += 1
        b = self.batches.setdefault(batch, {"cases": 0, "failed": 0})
        b["cases"] += 1
        h = case_hash(desc)
        if h not in self.hashes:
            self.hashes.add(h)
            if nontrivial:
                self.nontrivial += 1
        if len(self.samples) < 6 and (b["cases"] in (1, 7, 50)):
            self.samples.append({"batch": batch, "case": canon(desc)})

    def fail(self, batch, kind, site, signature, case, observed=None, expected=None, tags=None, theorem=None):
        """record a disagreement (kind='correspondence') or a property failure on the
        implementation (kind='property')"""
        b = self.batches.setdefault(batch, {"cases": 0, "failed": 0})
        b["failed"] += 1
        self.failures.append({
            "property": self.prop, "batch": batch, "kind": kind, "site": site, "signature": signature,
            "case": canon(case), "observed": canon(observed), "expected": canon(expected),
            "tags": canon(tags or {}), "theorem": theorem, "seed": self.seed,
        })


# ----------------------------------------------------------------------------- known findings
def load_known():
    p = os.path.join(VERIF, "known_findings.json")
    if not os.path.exists(p):
        return {"findings": [], "fixed": []}
    return json.load(open(p))


def match_known(failure, findings):
    """a failure matches a listed finding only if property, site, signature and every tag in
    `match` agree"""
    for f in findings:
        if f.get("property") != failure["property"]:
            continue
        if f.get("site") is not None and f["site"] != failure["site"]:
            continue
        if f.get("signature") is not None and f["signature"] != failure["signature"]:
            continue
        ok = True
        for k, v in (f.get("match") or {}).items():
            if failure["tags"].get(k) != v:
                ok = False
                break
        if ok:
            return f
    return None


def write_replay(prop, payload) -> str:
    os.makedirs(REPLAYS, exist_ok=True)
    h = case_hash(payload)
    path = os.path.join(REPLAYS, f"{prop}-{h}.json")
    with open(path, "w") as f:
        json.dump(canon(payload), f, indent=1, sort_keys=True)
    return os.path.relpath(path, VERIF)


# ----------------------------------------------------------------------------- source fingerprints (see tools/mkfingerprints.py)
def source_fingerprints(files):
    """{"<file>::<qualified function>": sha256 of the function's AST without docstrings / line numbers} for the given files of REPO"""
    import ast
    import hashlib
    out = {}
    for rel in files:
        path = os.path.join(REPO, rel)
        if not os.path.exists(path):
            out[rel + "::<file>"] = "missing"
            continue
        try:
            tree = ast.parse(open(path).read())
        except SyntaxError:
            out[rel + "::<file>"] = "syntax-error"
            continue

        def visit(body, prefix):
            for n in body:
                if isinstance(n, (ast.FunctionDef, ast.AsyncFunctionDef)):
                    b = list(n.body)
                    if b and isinstance(b[0], ast.Expr) and isinstance(b[0].value, ast.Constant) and isinstance(b[0].value.value, str):
                        b = b[1:]
                    text = ast.dump(n.args) + "|" + "|".join(ast.dump(x) for x in b)
                    out[f"{rel}::{prefix}{n.name}"] = hashlib.sha256(text.encode()).hexdigest()[:16]
                elif isinstance(n, ast.ClassDef):
                    visit(n.body, prefix + n.name + ".")
        visit(tree.body, "")
        # module-level statements other than defs / classes / imports / docstrings (constants, tables)
        top = [ast.dump(n) for n in tree.body if not isinstance(n, (ast.FunctionDef, ast.AsyncFunctionDef, ast.ClassDef, ast.Import, ast.ImportFrom))
               and not (isinstance(n, ast.Expr) and isinstance(n.value, ast.Constant))]
        out[rel + "::<module level>"] = hashlib.sha256("|".join(top).encode()).hexdigest()[:16]
    return out


def changed_sources(prop):
    """functions of the property's anchored files whose AST differs from tools/fingerprints.json; (list, base commit)"""
    fp = os.path.join(VERIF, "tools", "fingerprints.json")
    if not os.path.exists(fp):
        return [], None
    rec = json.load(open(fp))
    old = rec.get("properties", {}).get(prop)
    if old is None:
        return [], rec.get("base_commit")
    files = sorted({k.split("::")[0] for k in old})
    new = source_fingerprints(files)
    ch = sorted(k for k in set(old) | set(new) if old.get(k) != new.get(k))
    return ch, rec.get("base_commit")


def translator_baseline():
    """functions that are outside the translatable subset on the pinned (repaired) tree — committed, never written at run
    time (tools/translator_baseline.json); for these the hand model + correspondence carry the tie (DESIGN §4.1)"""
    try:
        with open(os.path.join(VERIF, "tools", "translator_baseline.json")) as fh:
            return set(json.load(fh))
    except OSError:
        return set()
