"""shared generators / array plumbing of the C17 and C07 harness modules (CDF arrays as canonical rows)"""
from __future__ import annotations

import math
from fractions import Fraction

import numpy as np
import xarray as xr

NAN = float("nan")


def fresh(a, b):
    """a freshly built (non-interned) str object for dimension-name arguments"""
    return "".join([a, b])


def round_half_even(q: Fraction) -> int:
    f = math.floor(q)
    r = q - f
    if r < Fraction(1, 2):
        return f
    if r > Fraction(1, 2):
        return f + 1
    return f if f % 2 == 0 else f + 1


def total_decrease(row):
    return sum(max(0.0, a - b) for a, b in zip(row, row[1:]))


def gen_thresholds(rng, n, halves=True):
    pool = [x / 2 for x in range(-4, 17)] if halves and rng.random() < 0.4 else [float(x) for x in range(-2, 9)]
    return sorted(rng.sample(pool, n))


def gen_cdf(rng, n, nan_p=0.0):
    """ordinates k/8 in [0,1]: mostly non-decreasing with plateaus, with decreasing runs mixed in"""
    style = rng.random()
    if style < 0.35:
        xs = sorted(rng.randint(0, 8) / 8 for _ in range(n))
    elif style < 0.55:
        xs = sorted(rng.choice([0, 0.25, 0.5, 0.5, 1.0]) for _ in range(n))
    else:
        xs = [rng.randint(0, 8) / 8 for _ in range(n)]
    if style >= 0.35 and rng.random() < 0.5 and n >= 2:   # perturb: one or two local swaps -> decreasing runs
        for _ in range(rng.randint(1, 2)):
            i = rng.randrange(n - 1)
            xs[i], xs[i + 1] = xs[i + 1], xs[i]
    if rng.random() < 0.3 and n >= 2:   # plateau
        i = rng.randrange(n - 1)
        xs[i + 1] = xs[i]
    if nan_p > 0:
        xs = [NAN if rng.random() < nan_p else v for v in xs]
    return xs


def gen_array(rng, nmin=1, nmax=6, partial_nan=True, out_of_bounds=False, shuffle_thr=False):
    n = rng.randint(nmin, nmax)
    thr = gen_thresholds(rng, n)
    names = rng.sample(["a", "b", "c"], rng.choice([0, 0, 1, 1, 2]))
    extra = {d: rng.choice([1, 2, 2, 3]) for d in sorted(names)}
    nrows = 1
    for s in extra.values():
        nrows *= s
    rows = []
    for _ in range(nrows):
        r = rng.random()
        if r < 0.12:
            rows.append([NAN] * n)
        elif partial_nan and r < 0.45:
            rows.append(gen_cdf(rng, n, nan_p=rng.choice([0.15, 0.3, 0.6])))
        else:
            rows.append(gen_cdf(rng, n))
    oob = False
    if out_of_bounds:
        i, j = rng.randrange(nrows), rng.randrange(n)
        rows[i][j] = rng.choice([1.125, -0.125, 2.0])
        oob = True
    if shuffle_thr:
        p = list(range(n))
        rng.shuffle(p)
        thr = [thr[k] for k in p]
        rows = [[r[k] for k in p] for r in rows]
    order = list(extra) + ["T"]
    rng.shuffle(order)
    return {"thr": thr, "rows": rows, "extra": extra, "order": order, "oob": oob}


def mk(c, tdim, rows=None, thr=None):
    """DataArray of the case: canonical rows (C order over the sorted extra dims) transposed to the case's order"""
    rows = c["rows"] if rows is None else rows
    thr = c["thr"] if thr is None else thr
    extra = c["extra"]
    names = sorted(extra)
    shape = [extra[d] for d in names] + [len(thr)]
    a = np.array(rows, dtype=float).reshape(shape)
    coords = {tdim: np.array(thr, dtype=float)}
    for d in names:
        coords[d] = list(range(10, 10 + extra[d]))
    da = xr.DataArray(a, dims=names + [tdim], coords=coords)
    da = da.transpose(*[tdim if d == "T" else d for d in c["order"]])
    # a fresh contiguous array in the final dim order (bottleneck 1.6 misreads transposed views with size-1 dims)
    return xr.DataArray(np.array(da.values, dtype=float, order="C", copy=True), dims=da.dims, coords={k: coords[k] for k in da.dims})


def rows_of(da, c, tdim):
    names = sorted(c["extra"])
    n = da.sizes[tdim]
    return np.asarray(da.transpose(*names, tdim).values, dtype=float).reshape(-1, n).tolist()


def scalars_of(da, c):
    names = sorted(c["extra"])
    if set(da.dims) != set(names):   # broadcast a reduced result is an error of the caller
        raise ValueError(f"unexpected result dims {da.dims}, wanted {names}")
    return list(np.asarray(da.transpose(*names).values).reshape(-1).tolist())


def gen_obs(rng, c, nan_p=0.1):
    names = sorted(c["extra"])
    k = rng.randint(0, len(names))
    od = sorted(rng.sample(names, k)) if rng.random() < 0.3 else names
    size = 1
    for d in od:
        size *= c["extra"][d]
    thr = c["thr"]
    vals = []
    for _ in range(size):
        r = rng.random()
        if r < nan_p:
            vals.append(NAN)
        elif r < 0.4:
            vals.append(rng.choice(thr))                                  # on a threshold
        elif r < 0.75 and len(thr) >= 2:
            i = rng.randrange(len(thr) - 1)
            vals.append((thr[i] + thr[i + 1]) / 2)                        # between two
        else:
            vals.append(rng.choice([min(thr) - rng.choice([0.5, 1, 2]), max(thr) + rng.choice([0.5, 1, 3])]))   # outside the grid
    od2 = list(od)
    rng.shuffle(od2)
    return {"obs_dims": od, "obs_vals": vals, "obs_order": od2}


def mk_obs(c):
    od = c["obs_dims"]
    shape = [c["extra"][d] for d in od]
    a = np.array(c["obs_vals"], dtype=float).reshape(shape)
    coords = {d: list(range(10, 10 + c["extra"][d])) for d in od}
    da = xr.DataArray(a, dims=od, coords=coords).transpose(*c.get("obs_order", od))
    return xr.DataArray(np.array(da.values, dtype=float, order="C", copy=True), dims=da.dims, coords={k: coords[k] for k in da.dims})


def broadcast_rows(c, dims, vals):
    """values of an array over `dims` (subset of the extra dims, C order over sorted dims) repeated per canonical row"""
    names = sorted(c["extra"])
    sizes = [c["extra"][d] for d in names]
    out = []
    idx = [0] * len(names)
    total = 1
    for s in sizes:
        total *= s
    for r in range(total):
        rem = r
        for k in range(len(names) - 1, -1, -1):
            idx[k] = rem % sizes[k]
            rem //= sizes[k]
        flat = 0
        for d in dims:
            flat = flat * c["extra"][d] + idx[names.index(d)]
        out.append(vals[flat])
    return out


def obs_per_row(c):
    return broadcast_rows(c, c["obs_dims"], c["obs_vals"])


def partial_nan_rows(c):
    return any(any(math.isnan(v) for v in r) and not all(math.isnan(v) for v in r) for r in c["rows"])


def _pow2(x):
    fr = Fraction(x)
    return fr > 0 and fr.numerator == 1 and (fr.denominator & (fr.denominator - 1)) == 0 or \
        (fr > 0 and fr.denominator == 1 and (fr.numerator & (fr.numerator - 1)) == 0)


def float_exact(c):
    """True when every float operation of the CRPS of this case is exact (so exact ties are float ties):
    trapezoid integration, and either a non-interpolating fill or all threshold gaps powers of two"""
    if c.get("integ", c.get("integration")) != "trapz":
        return False
    if c.get("fill", "linear") != "linear":
        return True
    thr = c["thr"]
    return all(_pow2(b - a) for a, b in zip(thr, thr[1:]))


def decode_case(o):
    """inverse of core.canon for the special floats"""
    if isinstance(o, dict):
        return {k: decode_case(v) for k, v in o.items()}
    if isinstance(o, list):
        return [decode_case(v) for v in o]
    if o == "nan":
        return NAN
    if o == "inf":
        return float("inf")
    if o == "-inf":
        return -float("inf")
    return o
