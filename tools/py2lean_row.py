"""
py2lean_row — third translator of tie T: xarray code that works ALONG ONE DISTINGUISHED DIMENSION of a forecast case
(the ensemble-member dimension of `crps_for_ensemble`).  One forecast case is a row `List Fl` (values along that
dimension) plus per-case scalars `Fl`; the translator types every expression as

    'row'  values along the distinguished dimension       -> List SV.Fl
    'fl'   one value per case (after a reduction / obs)     -> SV.Fl
    'brow' / 'bool'  boolean row / boolean per case         -> List Bool / Bool
    'idx'  the loop index of `for i in range(x.sizes[D])`   -> Nat

and maps each construct to exactly one Lean image:
    a ∘ b (+ − * /), comparisons      broadcast by type (row∘row = zipWith, row∘fl = map, fl∘fl = scalar op)
    x ** k  (k a literal)             Fl.powNat
    abs(x), np.abs(x), np.isnan(x), ~b, np.logical_and(a, b)
    x.sum(dim=D) / x.mean(dim=D) / x.count(D)     SV.nansum / SV.nanmean / Fl.ofNat (SV.count x)   (xarray skips NaN)
    x.isel({D: i})                    x.getD i Fl.nan
    x.where(c[, other])               element-wise Fl.whereB
    acc = 0; for i in range(x.sizes[D]): acc += E(i)      (List.range x.length).foldl (fun acc i => Fl.add acc E(i)) acc
    if <param> == "literal": v = E    let v := if param == "literal" then E else v
Anything else raises `Unsupported`.
"""
from __future__ import annotations

import ast

from py2lean import Unsupported, rat_lit

ARITH = {ast.Add: "SV.Fl.add", ast.Sub: "SV.Fl.sub", ast.Mult: "SV.Fl.mul", ast.Div: "SV.Fl.div"}
CMPOP = {ast.Lt: "SV.Fl.lt", ast.LtE: "SV.Fl.le", ast.Gt: "SV.Fl.gt", ast.GtE: "SV.Fl.ge"}


class RowTx:
    def __init__(self, dim_name: str, env: dict):
        self.D = dim_name              # python NAME holding the distinguished dimension (e.g. "ensemble_member_dim")
        self.env = dict(env)           # python name -> (lean term, type)
        self.k = 0

    # ---------------------------------------------------------------- helpers
    def is_dim(self, n):
        return isinstance(n, ast.Name) and n.id == self.D

    def dim_kw(self, call):
        """the `dim=` of a reduction must be the distinguished dimension"""
        args = list(call.args) + [k.value for k in call.keywords if k.arg == "dim"]
        if len(args) != 1 or not self.is_dim(args[0]):
            raise Unsupported(f"reduction over something else than {self.D}: {ast.unparse(call)[:70]}")

    def lift2(self, f, a, ta, b, tb, out_row, out_scalar):
        """broadcast a binary element function over row / scalar operands"""
        if ta in ("row", "brow") and tb in ("row", "brow"):
            return f"(List.zipWith (fun s t => {f} s t) {a} {b})", out_row
        if ta in ("row", "brow"):
            return f"({a}.map (fun s => {f} s {b}))", out_row
        if tb in ("row", "brow"):
            return f"({b}.map (fun t => {f} {a} t))", out_row
        return f"({f} {a} {b})", out_scalar

    def num(self, s, t):
        if t in ("row", "fl"):
            return s, t
        raise Unsupported(f"expected a number, got {t}")

    # ---------------------------------------------------------------- expressions
    def expr(self, n):
        if isinstance(n, ast.Name):
            if n.id in self.env:
                return self.env[n.id]
            raise Unsupported(f"unknown name {n.id}")
        if isinstance(n, ast.Constant) and isinstance(n.value, (int, float)) and not isinstance(n.value, bool):
            return rat_lit(n.value), "fl"
        if isinstance(n, ast.BinOp):
            if isinstance(n.op, ast.Pow):
                if not (isinstance(n.right, ast.Constant) and isinstance(n.right.value, int) and n.right.value >= 0):
                    raise Unsupported("power with a non-literal exponent")
                a, ta = self.num(*self.expr(n.left))
                if ta == "row":
                    return f"({a}.map (fun s => SV.Fl.powNat s {n.right.value}))", "row"
                return f"(SV.Fl.powNat {a} {n.right.value})", "fl"
            if type(n.op) not in ARITH:
                raise Unsupported(f"operator {type(n.op).__name__}")
            a, ta = self.num(*self.expr(n.left))
            b, tb = self.num(*self.expr(n.right))
            return self.lift2(ARITH[type(n.op)], a, ta, b, tb, "row", "fl")
        if isinstance(n, ast.UnaryOp) and isinstance(n.op, ast.Invert):
            a, ta = self.expr(n.operand)
            if ta == "brow":
                return f"({a}.map (fun s => !s))", "brow"
            if ta == "bool":
                return f"(!{a})", "bool"
            raise Unsupported("~ on a non-boolean")
        if isinstance(n, ast.UnaryOp) and isinstance(n.op, ast.USub):
            a, ta = self.num(*self.expr(n.operand))
            return (f"({a}.map SV.Fl.neg)", "row") if ta == "row" else (f"(SV.Fl.neg {a})", "fl")
        if isinstance(n, ast.Compare) and len(n.ops) == 1 and type(n.ops[0]) in CMPOP:
            a, ta = self.num(*self.expr(n.left))
            b, tb = self.num(*self.expr(n.comparators[0]))
            return self.lift2(CMPOP[type(n.ops[0])], a, ta, b, tb, "brow", "bool")
        if isinstance(n, ast.Call):
            f = n.func
            fname = ast.unparse(f)
            if fname in ("abs", "np.abs") and len(n.args) == 1:
                a, ta = self.num(*self.expr(n.args[0]))
                return (f"({a}.map SV.Fl.abs)", "row") if ta == "row" else (f"(SV.Fl.abs {a})", "fl")
            if fname == "np.isnan" and len(n.args) == 1:
                a, ta = self.num(*self.expr(n.args[0]))
                return (f"({a}.map SV.Fl.isNan)", "brow") if ta == "row" else (f"(SV.Fl.isNan {a})", "bool")
            if fname == "np.logical_and" and len(n.args) == 2:
                a, ta = self.expr(n.args[0])
                b, tb = self.expr(n.args[1])
                if ta not in ("brow", "bool") or tb not in ("brow", "bool"):
                    raise Unsupported("logical_and on non-booleans")
                return self.lift2("and", a, ta, b, tb, "brow", "bool")
            if isinstance(f, ast.Attribute):
                recv, tr = self.expr(f.value)
                if f.attr in ("sum", "mean"):
                    self.dim_kw(n)
                    if tr != "row":
                        raise Unsupported(f".{f.attr}(dim=…) on a non-row")
                    return (f"(SV.nansum {recv})" if f.attr == "sum" else f"(SV.nanmean {recv})"), "fl"
                if f.attr == "count":
                    self.dim_kw(n)
                    if tr != "row":
                        raise Unsupported(".count on a non-row")
                    return f"(SV.Fl.ofNat (SV.count {recv}))", "fl"
                if f.attr == "isel" and len(n.args) == 1 and isinstance(n.args[0], ast.Dict) and len(n.args[0].keys) == 1 \
                        and self.is_dim(n.args[0].keys[0]):
                    i, ti = self.expr(n.args[0].values[0])
                    if tr != "row" or ti != "idx":
                        raise Unsupported("isel outside the distinguished dimension")
                    return f"({recv}.getD {i} SV.Fl.nan)", "fl"
                if f.attr == "where" and 1 <= len(n.args) <= 2 and not n.keywords:
                    c, tc = self.expr(n.args[0])
                    other, to = ("SV.Fl.nan", "fl") if len(n.args) == 1 else self.num(*self.expr(n.args[1]))
                    if tr == "fl" and tc == "bool" and to == "fl":
                        return f"(SV.Fl.whereB {recv} {c} {other})", "fl"
                    if tr == "row" and tc == "brow" and to == "fl":
                        return f"(List.zipWith (fun s c => SV.Fl.whereB s c {other}) {recv} {c})", "row"
                    if tr == "row" and tc == "bool" and to == "fl":
                        return f"({recv}.map (fun s => SV.Fl.whereB s {c} {other}))", "row"
                    raise Unsupported(f".where with operand types {tr}/{tc}/{to}")
            raise Unsupported(f"call {ast.unparse(n)[:70]}")
        raise Unsupported(f"expression {ast.unparse(n)[:70]}")

    # ---------------------------------------------------------------- statements (straight-line, per-case)
    def stmts(self, body, params_str=()):
        """translate a list of statements into `let` lines; updates self.env; returns list of lean lines"""
        out = []
        for s in body:
            if isinstance(s, ast.Assign) and len(s.targets) == 1 and isinstance(s.targets[0], ast.Name):
                v, t = self.expr(s.value)
                out.append(self.bind(s.targets[0].id, v, t))
            elif isinstance(s, ast.For):
                out.append(self.for_loop(s))
            elif isinstance(s, ast.If):
                out += self.param_if(s, params_str)
            else:
                raise Unsupported(f"statement {ast.unparse(s)[:70]}")
        return out

    def bind(self, name, v, t):
        self.k += 1
        ln = f"{name}_{self.k}"
        self.env[name] = (ln, t)
        return f"  let {ln} := {v}"

    def for_loop(self, s: ast.For):
        """`for i in range(x.sizes[D]): acc += E(i)`"""
        ok = (isinstance(s.target, ast.Name) and isinstance(s.iter, ast.Call) and ast.unparse(s.iter.func) == "range"
              and len(s.iter.args) == 1 and isinstance(s.iter.args[0], ast.Subscript)
              and isinstance(s.iter.args[0].value, ast.Attribute) and s.iter.args[0].value.attr == "sizes"
              and self.is_dim(s.iter.args[0].slice) and len(s.body) == 1 and isinstance(s.body[0], ast.AugAssign)
              and isinstance(s.body[0].op, ast.Add) and isinstance(s.body[0].target, ast.Name) and not s.orelse)
        if not ok:
            raise Unsupported(f"for loop of another shape: {ast.unparse(s)[:80]}")
        row, tr = self.expr(s.iter.args[0].value.value)
        if tr != "row":
            raise Unsupported("loop bound is not the row length")
        acc = s.body[0].target.id
        acc0, ta = self.expr(ast.Name(id=acc, ctx=ast.Load()))
        if ta != "fl":
            raise Unsupported("accumulator is not a per-case number")
        saved = dict(self.env)
        self.env[s.target.id] = ("i", "idx")
        self.env[acc] = ("acc", "fl")
        e, te = self.num(*self.expr(s.body[0].value))
        self.env = saved
        if te != "fl":
            raise Unsupported("loop body does not add a per-case number")
        return self.bind(acc, f"((List.range {row}.length).foldl (fun acc i => SV.Fl.add acc {e}) {acc0})", "fl")

    def param_if(self, s: ast.If, params_str):
        """`if <str param> == "lit": v = E` (no else): v keeps its value on the other branch"""
        t = s.test
        ok = (isinstance(t, ast.Compare) and len(t.ops) == 1 and isinstance(t.ops[0], ast.Eq) and isinstance(t.left, ast.Name)
              and t.left.id in params_str and isinstance(t.comparators[0], ast.Constant) and isinstance(t.comparators[0].value, str)
              and not s.orelse and all(isinstance(b, ast.Assign) and len(b.targets) == 1 and isinstance(b.targets[0], ast.Name) for b in s.body))
        if not ok:
            raise Unsupported(f"if of another shape: {ast.unparse(s.test)[:60]}")
        out = []
        cond = f'({t.left.id} == "{t.comparators[0].value}")'
        for b in s.body:
            name = b.targets[0].id
            old, to = self.expr(ast.Name(id=name, ctx=ast.Load()))
            v, tv = self.expr(b.value)
            if tv != to:
                raise Unsupported("branch changes the type of a variable")
            out.append(self.bind(name, f"(if {cond} then {v} else {old})", tv))
        return out
