"""
py2lean_stmt — translate Python-level *control logic over dimension names* (assignments, if/elif/else, raise,
return, assert; set / str / None values) into a Lean 4 `do` block in the `Except PyErr` monad over the dynamic value
universe `SV.PyDyn.V` (lean/ScoresVerif/Model/PyDyn.lean).  Lean's `do` notation has mutable locals and early
return, so the image is statement-for-statement: one Lean line per Python statement, in source order.

Second translator of tie T (DESIGN §4.1): `py2lean.py` handles pointwise numeric expressions, this one handles
the name/set logic of `utils.gather_dimensions`.  Anything outside the subset raises `Unsupported` (the generator
then records the function as "inapplicable" and the correspondence check carries it alone).

Expression terms have their plain type (V, Bool, Nat) and may contain nested actions `(← …)` for operations that
can raise; `do` notation hoists them in evaluation order.  Short-circuit `and` / `or` whose later operand can raise
keep Python's evaluation order through nested monadic `if`-expressions.
"""
from __future__ import annotations

import ast
import json

from py2lean import Unsupported

SET_METHODS = {"union": "union", "difference": "difference", "intersection": "intersection"}


def lstr(s: str) -> str:
    return json.dumps(s)


class StmtTx:
    def __init__(self, params, skip_calls=("warnings.warn",)):
        self.params = list(params)
        self.declared = set(params)     # names visible at the current point (top-level scope)
        self.mut = set()                # names already re-bound as `let mut`
        self.skip_calls = set(skip_calls)

    # ------------------------------------------------------------------ expressions
    # expr() returns (lean term, type).  The term has the plain type (V / Bool / Nat) and may contain nested
    # actions `(← …)`, which Lean's `do` notation hoists to just before the enclosing statement — Python's
    # left-to-right evaluation order.  Only short-circuit operators need care (see BoolOp).
    @staticmethod
    def impure(s):
        return "←" in s

    def val(self, node):
        s, t = self.expr(node)
        if t != "v":
            raise Unsupported(f"expected a value, got {t}: {ast.unparse(node)}")
        return s

    def cond(self, node):
        """python truthiness of an expression used as a condition -> lean Bool term"""
        s, t = self.expr(node)
        if t == "bool":
            return s
        if t == "v":
            return f"(SV.PyDyn.V.truthy {s})"
        raise Unsupported(f"condition of type {t}")

    def expr(self, n):
        if isinstance(n, ast.Name):
            if n.id not in self.declared:
                raise Unsupported(f"name {n.id} used before a top-level assignment")
            return n.id, "v"
        if isinstance(n, ast.Constant):
            if n.value is None:
                return "SV.PyDyn.V.none", "v"
            if isinstance(n.value, str):
                return f"(SV.PyDyn.V.str {lstr(n.value)})", "v"
            if isinstance(n.value, bool):
                return ("true" if n.value else "false"), "bool"
            if isinstance(n.value, int) and n.value >= 0:
                return str(n.value), "nat"
            raise Unsupported(f"constant {n.value!r}")
        if isinstance(n, ast.List):
            if len(n.elts) == 0:
                return "(SV.PyDyn.V.list [])", "v"
            if len(n.elts) == 1:
                return f"(← SV.PyDyn.V.singleton {self.val(n.elts[0])})", "v"
            raise Unsupported("list literal with several elements")
        if isinstance(n, ast.UnaryOp) and isinstance(n.op, ast.Not):
            return f"(!{self.cond(n.operand)})", "bool"
        if isinstance(n, ast.BoolOp):
            is_and = isinstance(n.op, ast.And)
            parts = [self.expr(v) for v in n.values]
            if all(t == "v" for _, t in parts):
                # value-level `a or b` (python returns an operand); operands must be side-effect free
                if not is_and and not any(self.impure(s) for s, _ in parts):
                    acc = parts[-1][0]
                    for s, _ in reversed(parts[:-1]):
                        acc = f"(SV.PyDyn.V.or {s} {acc})"
                    return acc, "v"
                raise Unsupported("value-level `and`, or `or` with an operand that can raise")
            conds = [self.cond(v) for v in n.values]
            if not any(self.impure(c) for c in conds[1:]):
                op = " && " if is_and else " || "
                return "(" + op.join(conds) + ")", "bool"
            # a later operand can raise: keep python's short-circuit order with nested monadic if-expressions
            acc = f"(do pure {conds[-1]})"
            for c in reversed(conds[:-1]):
                if is_and:
                    acc = f"(do if {c} then {acc} else pure false)"
                else:
                    acc = f"(do if {c} then pure true else {acc})"
            return f"(← {acc})", "bool"
        if isinstance(n, ast.Compare) and len(n.ops) == 1:
            op, l, r = n.ops[0], n.left, n.comparators[0]
            if isinstance(op, (ast.Is, ast.IsNot)) and isinstance(r, ast.Constant) and r.value is None:
                v = self.val(l)
                return (f"(SV.PyDyn.V.isNone {v})" if isinstance(op, ast.Is) else f"(!SV.PyDyn.V.isNone {v})"), "bool"
            if isinstance(op, (ast.Eq, ast.NotEq)) and isinstance(r, ast.Constant) and isinstance(r.value, str):
                s = f"(SV.PyDyn.V.eqStr {self.val(l)} {lstr(r.value)})"
                return (s if isinstance(op, ast.Eq) else f"(!{s})"), "bool"
            if isinstance(op, (ast.In, ast.NotIn)) and isinstance(l, ast.Constant) and isinstance(l.value, str):
                s = f"(← SV.PyDyn.V.containsStr {self.val(r)} {lstr(l.value)})"
                return (s if isinstance(op, ast.In) else f"(!{s})"), "bool"
            if isinstance(op, (ast.Gt, ast.GtE, ast.Lt, ast.LtE, ast.Eq, ast.NotEq)):
                ls, lt = self.expr(l)
                rs, rt = self.expr(r)
                if lt == rt == "nat":
                    sym = {ast.Gt: ">", ast.GtE: "≥", ast.Lt: "<", ast.LtE: "≤", ast.Eq: "==", ast.NotEq: "!="}[type(op)]
                    if sym in ("==", "!="):
                        return f"({ls} {sym} {rs})", "bool"
                    return f"(decide ({ls} {sym} {rs}))", "bool"
            raise Unsupported(f"comparison {ast.unparse(n)}")
        if isinstance(n, ast.Call):
            f = n.func
            if isinstance(f, ast.Name) and f.id == "set" and len(n.args) == 1 and not n.keywords:
                return f"(← SV.PyDyn.V.toSet {self.val(n.args[0])})", "v"
            if isinstance(f, ast.Name) and f.id == "len" and len(n.args) == 1:
                return f"(← SV.PyDyn.V.len {self.val(n.args[0])})", "nat"
            if isinstance(f, ast.Name) and f.id == "isinstance" and len(n.args) == 2 \
                    and isinstance(n.args[1], ast.Name) and n.args[1].id == "str":
                return f"(SV.PyDyn.V.isStr {self.val(n.args[0])})", "bool"
            if isinstance(f, ast.Attribute) and f.attr in SET_METHODS and len(n.args) == 1 and not n.keywords:
                recv = self.val(f.value)          # receiver first, then the argument (python order)
                return f"(← SV.PyDyn.V.{SET_METHODS[f.attr]} {recv} {self.val(n.args[0])})", "v"
            if isinstance(f, ast.Attribute) and f.attr == "issubset" and len(n.args) == 1 and not n.keywords:
                recv = self.val(f.value)
                return f"(← SV.PyDyn.V.issubset {recv} {self.val(n.args[0])})", "bool"
            if isinstance(f, ast.Attribute) and f.attr == "copy" and not n.args:
                return f"(← SV.PyDyn.V.copy {self.val(f.value)})", "v"
            raise Unsupported(f"call {ast.unparse(n)[:80]}")
        raise Unsupported(f"expression {ast.unparse(n)[:80]}")

    # ------------------------------------------------------------------ statements
    def block(self, stmts, ind, top=False):
        out = []
        for s in stmts:
            out += self.stmt(s, ind, top)
        if not out:
            out = [" " * ind + "pure ()"]
        return out

    def stmt(self, s, ind, top):
        pad = " " * ind
        if isinstance(s, ast.Expr):
            if isinstance(s.value, ast.Constant):           # docstring
                return []
            if isinstance(s.value, ast.Call) and ast.unparse(s.value.func) in self.skip_calls:
                return [pad + f"pure ()   -- {ast.unparse(s.value.func)}(…): no effect on the result"]
            raise Unsupported(f"expression statement {ast.unparse(s)[:60]}")
        if isinstance(s, ast.Pass):
            return [pad + "pure ()"]
        if isinstance(s, ast.Assign):
            if len(s.targets) != 1 or not isinstance(s.targets[0], ast.Name):
                raise Unsupported(f"assignment target {ast.unparse(s)[:60]}")
            name = s.targets[0].id
            rs, rt = self.expr(s.value)
            if rt != "v":
                raise Unsupported("assignment of a non-value")
            arrow = ":="
            if name in self.mut:
                return [pad + f"{name} {arrow} {rs}"]
            if name in self.declared:   # a parameter: re-bind as mutable at its first assignment (top level only)
                raise Unsupported(f"internal: parameter {name} should have been made mutable up front")
            if not top:
                raise Unsupported(f"local {name} first assigned inside a branch")
            self.declared.add(name)
            self.mut.add(name)
            return [pad + f"let mut {name} {arrow} {rs}"]
        if isinstance(s, ast.Raise):
            exc = s.exc
            if isinstance(exc, ast.Call) and isinstance(exc.func, ast.Name) and exc.func.id == "ValueError" and len(exc.args) == 1:
                a = exc.args[0]
                msg = a.id if isinstance(a, ast.Name) else (a.value if isinstance(a, ast.Constant) else ast.unparse(a))
                return [pad + f"throw (SV.PyDyn.PyErr.value {lstr(str(msg))})"]
            raise Unsupported(f"raise {ast.unparse(s)[:60]}")
        if isinstance(s, ast.Return):
            return [pad + f"return {self.val(s.value)}"]
        if isinstance(s, ast.Assert):
            return [pad + f"if !{self.cond(s.test)} then throw SV.PyDyn.PyErr.assertion"]
        if isinstance(s, ast.If):
            out = [pad + f"if {self.cond(s.test)} then"]
            out += self.block(s.body, ind + 2)
            if s.orelse:
                out.append(pad + "else")
                out += self.block(s.orelse, ind + 2)
            return out
        raise Unsupported(f"statement {type(s).__name__}: {ast.unparse(s)[:60]}")

    def function(self, fn: ast.FunctionDef, lean_name: str):
        params = [a.arg for a in fn.args.posonlyargs + fn.args.args + fn.args.kwonlyargs]
        if fn.args.vararg or fn.args.kwarg:
            raise Unsupported("*args / **kwargs")
        self.params = params
        self.declared = set(params)
        assigned = {t.id for n in ast.walk(fn) if isinstance(n, ast.Assign) for t in n.targets if isinstance(t, ast.Name)}
        head = [f"def {lean_name} " + " ".join(f"({p} : SV.PyDyn.V)" for p in params) + " : SV.PyDyn.M SV.PyDyn.V := do"]
        for p in params:
            if p in assigned:
                head.append(f"  let mut {p} := {p}")
                self.mut.add(p)
        body = self.block(fn.body, 2, top=True)
        return "\n".join(head + body) + "\n"
