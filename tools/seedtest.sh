#!/bin/bash
# tools/seedtest.sh <diff file> <check ids...>
# Applies one seeded change in the dedicated evaluation worktree /tmp/seedeval (never in a seeder's own worktree),
# runs the given checks against it (SCORES_REPO), restores the worktree and regenerates Gen/ from /repo.
DIFF=$1; shift
WT=${SEEDEVAL_WT:-/tmp/seedeval}
cd "$(dirname "$0")/.."
git -C "$WT" checkout -q -- .
git -C "$WT" apply "$DIFF" 2>/dev/null || (cd "$WT" && patch -s -p1 --fuzz=3 --no-backup-if-mismatch < "$DIFF") || { echo "APPLY-FAILED $DIFF"; exit 3; }
for p in "$@"; do
  out=$(SCORES_REPO=$WT timeout 1800 ./check $p 2>&1); rc=$?
  echo "$(basename $(dirname $(dirname $DIFF)))/$(basename $DIFF) check=$p rc=$rc :: $(echo "$out" | grep '^VIOLATION' | head -2 | tr '\n' ' ') $(echo "$out" | tail -1 | cut -c1-120)"
done
git -C "$WT" checkout -q -- .
# regenerate only the Gen modules these checks use (other work may be running against other modules)
MODS=$(/venv/bin/python - "$@" <<'PY' 2>/dev/null
import sys, importlib
sys.path.insert(0, "tools")
mods = []
for pid in sys.argv[1:]:
    try:
        m = importlib.import_module("sv.props." + pid.lower())
        mods += [g for g in getattr(m, "GEN", []) if g not in mods]
    except Exception:
        pass
print(" ".join(mods))
PY
)
[ -n "$MODS" ] && /venv/bin/python tools/translate.py $MODS > /dev/null 2>&1
