"""writes MANIFEST.json from the table below (kept as code so it stays consistent)"""
import json, os
HERE = os.path.dirname(os.path.dirname(os.path.abspath(__file__)))
import importlib, sys
sys.path.insert(0, os.path.join(HERE, "tools"))
HOLD = set()
if os.path.exists(os.path.join(HERE, "tools", "hold.txt")):
    HOLD = set(open(os.path.join(HERE, "tools", "hold.txt")).read().split())
CLAIMED = {}
TARGETS = ["ScoresVerif.Driver.Loop"]
for fn in sorted(os.listdir(os.path.join(HERE, "tools", "sv", "props"))):
    if fn.startswith("c") and fn.endswith(".py"):
        m = importlib.import_module("sv.props." + fn[:-3])
        if getattr(m, "MANIFEST", None) and m.PROPERTY not in HOLD:
            CLAIMED[m.PROPERTY] = m.MANIFEST
            TARGETS += [p[:-5].replace("/", ".") for p in getattr(m, "PROPS", [])] + list(getattr(m, "DRIVER_DEPS", []))
REASON_PENDING = "check not built yet in this session; the property is within reach of the technique (see DESIGN.md section 6) and will be claimed when its model, theorems and correspondence exist"
def main():
    props = [json.loads(l)["id"] for l in open(os.path.join(HERE, "properties.jsonl"))]
    checks = []
    for pid in props:
        if pid not in CLAIMED: continue
        c = CLAIMED[pid]
        checks.append({
            "property_id": pid,
            "quick_cmd": f"./check {pid} --tier quick",
            "thorough_cmd": f"./check {pid} --tier thorough",
            "evidence_file": f"evidence/{pid}.json",
            "replay_cmd_template": f"./check {pid} --replay {{path}}",
            "engine": "lean4-proof+correspondence",
            "level_claimed": {"category": c["level"], "text": c["text"], "design_ref": c["design"]},
            "level_note": c["note"],
            "technique": c["technique"],
        })
    m = {
        "version": 1,
        "setup_cmd": "bash tools/setup.sh",
        "hooks": {"guard": "NCI_SCORES_VERIF", "enable": "no hooks are needed: every observation point is a return value or exception of a public or module-level function",
                  "baseline_off_cmd": "cd /repo && /venv/bin/python -m pytest -ra -q -p no:cacheprovider --timeout=900 --continue-on-collection-errors",
                  "source_commits": [], "add_only": True},
        "engines": [{"name": "lean4-proof+correspondence", "path": "lean/ tools/", "serves_properties": sorted(CLAIMED),
                     "kind_free_text": "Lean 4 model + theorems (lake project lean/), Python-AST->Lean translator (tools/py2lean.py, tools/translate.py), differential correspondence harness driving `lake env lean --run drivers/<id>.lean` over a JSON line protocol (tools/sv/)"}],
        "checks": checks,
        "notes": "Entry point ./check <id>. Exit 0 held / 1 violation / 2 machinery failure. known_findings.json lists recorded defects.",
        "not_applicable": [{"property_id": p, "reason": REASON_PENDING} for p in props if p not in CLAIMED],
    }
    json.dump(m, open(os.path.join(HERE, "MANIFEST.json"), "w"), indent=1)
    open(os.path.join(HERE, "tools", "targets.txt"), "w").write("\n".join(dict.fromkeys(TARGETS)) + "\n")
main()
