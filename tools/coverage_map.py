"""
coverage_map.py — which functions of /repo/src/scores are inside the verified model, and how.

For every function / method defined under src/scores (docstrings and blank lines not counted) the map says whether
  T  the function — or the slice of it that carries the property (kernel, guard, frame facts) — is REGENERATED into lean/ScoresVerif/Gen/*.lean on every run — its name is handed to the
     translator by a generator under tools/gen/ — so theorems are about its current source;
  X  it is exercised by the differential harness (named in tools/sv/registry.py or a tools/sv/props/*.py module), i.e. tied to
     a hand model / spec by the correspondence check or compared by a relational oracle;
  C  it is only reached through callers that are T / X (a private helper of such a function, found by a call-graph walk
     inside src/scores);
  –  none of these: NOT covered by any check.
The classification is by NAME (AST of the generators and harness modules), so it is a map for the reader and for the
trusted-base statement in DESIGN.md §7, not a proof obligation.  Output: COVERAGE.md and a JSON summary on stdout.
"""
from __future__ import annotations

import ast
import json
import os
import re
import sys

HERE = os.path.dirname(os.path.abspath(__file__))
VERIF = os.path.dirname(HERE)
REPO = os.environ.get("SCORES_REPO", "/repo")
SRC = os.path.join(REPO, "src", "scores")
SKIP_FILES = {"sample_data.py", "typing.py"}


def code_lines(node, src_lines):
    """number of source lines of a def that are not blank, comment or docstring"""
    doc = None
    if node.body and isinstance(node.body[0], ast.Expr) and isinstance(node.body[0].value, ast.Constant) \
            and isinstance(node.body[0].value.value, str):
        doc = node.body[0]
    n = 0
    for ln in range(node.lineno, node.end_lineno + 1):
        if doc is not None and doc.lineno <= ln <= doc.end_lineno:
            continue
        t = src_lines[ln - 1].strip()
        if t and not t.startswith("#"):
            n += 1
    return n


def collect_functions():
    funcs = []   # dict(module, qual, name, lines, calls)
    for d, _, fs in os.walk(SRC):
        for f in sorted(fs):
            if not f.endswith(".py") or f in SKIP_FILES or f == "__init__.py":
                continue
            path = os.path.join(d, f)
            text = open(path).read()
            tree = ast.parse(text)
            lines = text.splitlines()
            mod = os.path.relpath(path, os.path.join(REPO, "src"))[:-3].replace(os.sep, ".")

            def visit(body, prefix):
                for n in body:
                    if isinstance(n, (ast.FunctionDef, ast.AsyncFunctionDef)):
                        calls = set()
                        for c in ast.walk(n):          # calls AND bare references (functions passed on / kept in a dict)
                            if isinstance(c, ast.Name):
                                calls.add(c.id)
                            elif isinstance(c, ast.Attribute):
                                calls.add(c.attr)
                        funcs.append(dict(module=mod, qual=prefix + n.name, name=n.name, lines=code_lines(n, lines), calls=calls))
                    elif isinstance(n, ast.ClassDef):
                        visit(n.body, prefix + n.name + ".")
            visit(tree.body, "")
    return funcs


def names_in(paths):
    """identifiers, attribute names and string literals occurring in the given python files"""
    ids, strs = set(), set()
    for p in paths:
        try:
            tree = ast.parse(open(p).read())
        except SyntaxError:
            continue
        for n in ast.walk(tree):
            if isinstance(n, ast.Name):
                ids.add(n.id)
            elif isinstance(n, ast.Attribute):
                ids.add(n.attr)
            elif isinstance(n, ast.alias):
                ids.add((n.asname or n.name).split(".")[-1])
                ids.add(n.name.split(".")[-1])
            elif isinstance(n, ast.Constant) and isinstance(n.value, str):
                for tok in re.findall(r"[A-Za-z_][A-Za-z0-9_]*", n.value):
                    strs.add(tok)
    return ids, strs


def main():
    funcs = collect_functions()
    gen_files = [os.path.join(HERE, "gen", f) for f in os.listdir(os.path.join(HERE, "gen")) if f.endswith(".py")]
    har_files = [os.path.join(HERE, "sv", "registry.py"), os.path.join(HERE, "sv", "cdf_c17c07.py")] + \
                [os.path.join(HERE, "sv", "props", f) for f in os.listdir(os.path.join(HERE, "sv", "props")) if f.endswith(".py")]
    g_ids, g_strs = names_in(gen_files)
    h_ids, h_strs = names_in(har_files)
    gen_names = g_ids | g_strs
    # names the generators report as translated on this run (e.g. every method of BasicContingencyManager)
    try:
        import subprocess
        r = subprocess.run([sys.executable, os.path.join(HERE, "translate.py"), "all"], capture_output=True, text=True, timeout=600)
        for m, v in json.loads(r.stdout.strip().splitlines()[-1]).items():
            for fn in (v.get("functions") or {}):
                gen_names.add(fn.split(".")[-1])
    except Exception:
        pass
    har_names = h_ids | h_strs
    DUNDER_OK = {"__init__", "__post_init__"}
    status = {}
    for f in funcs:
        key = (f["module"], f["qual"])
        nm = f["name"]
        if nm.startswith("__") and nm not in DUNDER_OK:
            status[key] = "skip"
            continue
        probe = {nm, f["qual"].replace(".", "_"), f["qual"]}
        if nm in DUNDER_OK:
            probe = {f["qual"].split(".")[0]}          # constructors: covered when the class is named
        if probe & gen_names:
            status[key] = "T"
        elif probe & har_names:
            status[key] = "X"
        else:
            status[key] = "-"
    # call-graph closure inside src/scores: helpers reached from T / X functions
    byname = {}
    for f in funcs:
        byname.setdefault(f["name"], []).append(f)
    changed = True
    while changed:
        changed = False
        for f in funcs:
            if status[(f["module"], f["qual"])] in ("T", "X", "C"):
                for c in f["calls"]:
                    for g in byname.get(c, []):
                        k = (g["module"], g["qual"])
                        if status[k] == "-":
                            status[k] = "C"
                            changed = True
    tot = {"T": 0, "X": 0, "C": 0, "-": 0}
    cnt = {"T": 0, "X": 0, "C": 0, "-": 0}
    rows = []
    for f in sorted(funcs, key=lambda f: (f["module"], f["qual"])):
        st = status[(f["module"], f["qual"])]
        if st == "skip":
            continue
        tot[st] += f["lines"]
        cnt[st] += 1
        rows.append((f["module"], f["qual"], f["lines"], st))
    total = sum(tot.values())
    out = ["# Coverage map of /repo/src/scores (generated by tools/coverage_map.py — by name, see its docstring)", "",
           "| class | functions | code lines | share |", "|---|---|---|---|"]
    label = {"T": "T — regenerated into Lean on every run (theorems about the current source)",
             "X": "X — exercised by the differential harness (hand model / spec / relational oracle)",
             "C": "C — private helper reached only through T / X callers",
             "-": "– not covered by any check"}
    for k in ("T", "X", "C", "-"):
        out.append(f"| {label[k]} | {cnt[k]} | {tot[k]} | {100.0 * tot[k] / max(total, 1):.1f} % |")
    out += ["", "Not counted: `sample_data.py`, `typing.py`, `__init__.py`, dunder methods other than constructors.", "",
            "| module | function | code lines | class |", "|---|---|---|---|"]
    for m, q, n, st in rows:
        out.append(f"| {m} | {q} | {n} | {st if st != '-' else '–'} |")
    with open(os.path.join(VERIF, "COVERAGE.md"), "w") as fh:
        fh.write("\n".join(out) + "\n")
    print(json.dumps({"functions": cnt, "lines": tot, "uncovered": [f"{m}.{q}" for m, q, n, st in rows if st == "-"]}))


if __name__ == "__main__":
    main()
