"""
./check <Cxx> [--tier quick|thorough] [--replay path]

Decides one property against /repo's current working tree (DESIGN.md §5):
  1. regenerate the Gen/ Lean modules from the source (tie T),
  2. lake build the property's theorems (kernel-checked) and its driver,
  3. audit sources and axioms,
  4. correspondence: implementation vs executable model on generated cases (tie X),
  5. property oracle on the implementation (the failing-input search; larger budget when 2 or 4 broke),
  6. known-findings filter, evidence, VIOLATION / KNOWN-FINDING lines, exit code.
Exit 0 = held on everything explored; 1 = violation; 2 = the machinery itself failed.
"""
from __future__ import annotations

import argparse
import importlib
import json
import os
import sys
import time
import traceback
import warnings

HERE = os.path.dirname(os.path.abspath(__file__))
sys.path.insert(0, HERE)
warnings.filterwarnings("ignore")

from sv import core  # noqa: E402

if core.REPO != "/repo":   # development: run against a scratch worktree (SCORES_REPO=/tmp/wt)
    sys.path.insert(0, os.path.join(core.REPO, "src"))


def main():
    ap = argparse.ArgumentParser()
    ap.add_argument("prop")
    ap.add_argument("--tier", default=os.environ.get("VERIF_TIER", "quick"))
    ap.add_argument("--replay", default=None)
    ap.add_argument("--no-build", action="store_true", help="skip lake build / audit (development only)")
    a = ap.parse_args()
    prop = a.prop.upper()
    tier = a.tier if a.tier in ("quick", "thorough") else "quick"
    try:
        seed = int(os.environ.get("VERIF_SEED", "0"))
    except ValueError:
        seed = 0
    mod = importlib.import_module(f"sv.props.{prop.lower()}")
    ctx = core.Ctx(prop, tier, seed)

    if a.replay:
        payload = json.load(open(a.replay if os.path.isabs(a.replay) else os.path.join(core.VERIF, a.replay)))
        try:
            still = mod.replay(ctx, payload)
        except Exception:
            traceback.print_exc()
            sys.exit(2)
        if still:
            print(f"VIOLATION property={prop} replay={a.replay}")
            sys.exit(1)
        print(f"replay {a.replay}: property holds on this input now")
        sys.exit(0)

    t0 = time.time()
    broken = []          # obligations that no longer check (theorem names, build targets)
    machinery = []       # problems of the machinery itself
    tstat = {}
    theorems = []
    axioms = {}
    checker_cmds = []
    driver_ok = True
    prop_files = list(getattr(mod, "PROPS", []))
    prop_modules = [p[:-5].replace("/", ".") for p in prop_files]
    try:
        if not a.no_build:
            with core.BuildLock():
                tstat = core.run_translator(getattr(mod, "GEN", []))
                for m, st in tstat.items():
                    if st.get("status") == "inapplicable":
                        ctx.notes.append(f"translator inapplicable for {m}: {st.get('error', '')[:300]}")
                    for fn, s in (st.get("functions") or {}).items():
                        if s != "ok":
                            ctx.notes.append(f"translator: {m}.{fn}: {s}")
                            # a function that has LEFT the translatable subset is no longer regenerated: the theorems
                            # then speak about its previous definition, i.e. tie T no longer checks for it (the committed
                            # baseline lists the functions for which this is the documented state of the pinned tree)
                            if f"{m}.{fn}" not in core.translator_baseline():
                                broken.append({"obligation": "translator", "detail": f"{m}.{fn} is no longer regenerated from the source: {s}"[:400]})
                drv = ["ScoresVerif.Driver.Loop"] + list(getattr(mod, "DRIVER_DEPS", []))
                ok, out = core.lake_build(drv)
                checker_cmds.append("cd lean && lake build " + " ".join(drv))
                if not ok:
                    driver_ok = False
                    broken.append({"obligation": "driver build", "detail": core.failing_decls(out) or out[-1500:]})
                    # salvage the drivers that do not depend on the broken regenerated module (spec-only drivers):
                    # the failing-input search needs them
                    for one in drv:
                        core.lake_build([one])
                if tier == "thorough":
                    # re-elaborate the property's modules from scratch
                    for pm in prop_modules:
                        for ext in ("olean", "ilean", "trace", "olean.hash", "ilean.hash", "c", "c.hash"):
                            f = os.path.join(core.LEAN_DIR, ".lake", "build", "lib", "lean", pm.replace(".", "/") + "." + ext)
                            if os.path.exists(f):
                                os.remove(f)
                if prop_modules:
                    ok, out = core.lake_build(prop_modules)
                    checker_cmds.append("cd lean && lake build " + " ".join(prop_modules))
                    if not ok:
                        names = core.failing_decls(out)
                        broken.append({"obligation": "theorems", "detail": names or out[-1500:]})
                for pf in prop_files:
                    theorems += core.theorem_names(pf)
                hits = core.source_audit(prop_files + list(getattr(mod, "AUDIT_FILES", [])))
                if hits:
                    machinery.append({"audit": hits})
                if not broken:
                    for pm, pf in zip(prop_modules, prop_files):
                        names = core.theorem_names(pf)
                        ax, err = core.axiom_audit(pm, names)
                        axioms.update(ax)
                        if err:
                            machinery.append({"axiom audit": err[-800:]})
                    checker_cmds.append("lake env lean <#print axioms for every theorem>")
                    bad = {n: x for n, x in axioms.items() if not set(x) <= core.STD_AXIOMS}
                    if bad:
                        machinery.append({"non-standard axioms": bad})
                    missing = [n for n in theorems if n not in axioms]
                    if missing:
                        machinery.append({"axioms not reported for": missing[:10]})
                    if tier == "thorough" and prop_modules:
                        import subprocess
                        p = subprocess.run(["lake", "env", "leanchecker"] + prop_modules, cwd=core.LEAN_DIR,
                                           capture_output=True, text=True, timeout=3000)
                        checker_cmds.append("lake env leanchecker " + " ".join(prop_modules))
                        if p.returncode != 0:
                            machinery.append({"leanchecker": (p.stdout + p.stderr)[-1500:]})
        # ---- tie X and the property oracle
        # A harness function that crashes on the current tree could not establish its obligation (a change of the
        # code can make results take a shape the harness does not expect): that is a broken obligation, searched
        # like any other, never silently an "ok".  On the unchanged tree these functions run clean.
        if driver_ok:
            try:
                mod.correspondence(ctx)
            except Exception:
                tb = traceback.format_exc()
                broken.append({"obligation": "correspondence could not be established (harness exception)", "detail": tb[-1500:]})
        corr_fail = [f for f in ctx.failures if f["kind"] == "correspondence"]
        # anchored source that differs from what the models were validated against: not a violation, but search harder
        changed_src, fp_base = core.changed_sources(prop)
        if changed_src:
            ctx.notes.append(f"anchored source changed since {str(fp_base)[:10]}: " + ", ".join(changed_src[:12]) +
                             (" …" if len(changed_src) > 12 else "") + " — failing-input search boosted")
        boost = bool(broken or corr_fail or changed_src)
        try:
            mod.oracle(ctx, boost)
        except Exception:
            tb = traceback.format_exc()
            broken.append({"obligation": "property oracle could not be evaluated (harness exception)", "detail": tb[-1500:]})
    except Exception:
        traceback.print_exc()
        print(f"MACHINERY-ERROR property={prop}")
        sys.exit(2)

    # ---- classify
    known = core.load_known()
    findings = [f for f in known.get("findings", []) if f.get("property") == prop]
    prop_fail, corr_fail, known_hits = [], [], {}
    for f in ctx.failures:
        k = core.match_known(f, findings)
        if k is not None:
            known_hits.setdefault(k["id"], []).append(f)
            continue
        (prop_fail if f["kind"] == "property" else corr_fail).append(f)

    lines = []
    for fid, fs in known_hits.items():
        k = next(x for x in findings if x["id"] == fid)
        lines.append(f"KNOWN-FINDING: property={prop} {fid} {k.get('what', '')} ({len(fs)} case(s) this run)")
    violations = 0
    if prop_fail:
        # one VIOLATION line per distinct (site, signature)
        seen = {}
        for f in prop_fail:
            seen.setdefault((f["site"], f["signature"]), f)
        for (site, sig), f in seen.items():
            payload = dict(f)
            payload["broken_obligations"] = broken
            payload["how_to_replay"] = f"./check {prop} --replay <this file>"
            path = core.write_replay(prop, payload)
            lines.append(f"VIOLATION property={prop} replay={path}")
            violations += 1
    elif broken or corr_fail:
        payload = {
            "property": prop, "kind": "obligation-broken",
            "broken_obligations": broken,
            "correspondence_disagreements": corr_fail[:5],
            "note": "a proof obligation or the model/implementation correspondence no longer checks; the "
                    "failing-input search over the implementation found no input on which the property itself fails",
            "search": {"evaluations": ctx.evaluations, "batches": ctx.batches},
        }
        path = core.write_replay(prop, payload)
        lines.append(f"VIOLATION property={prop} replay={path} no-failing-input-found")
        violations += 1

    # ---- evidence
    n_thm = len(theorems)
    thm_ok = 0 if any(b["obligation"] == "theorems" for b in broken) else n_thm
    if any(b["obligation"] == "theorems" for b in broken):
        det = next(b for b in broken if b["obligation"] == "theorems")["detail"]
        nbad = len(det) if isinstance(det, list) else n_thm
        thm_ok = max(0, n_thm - nbad)
    n_b = len(ctx.batches)
    # a batch is discharged when every failure in it is a listed known finding (reported as KNOWN-FINDING above)
    unmatched = {}
    for f in prop_fail + corr_fail:
        unmatched[f["batch"]] = unmatched.get(f["batch"], 0) + 1
    for name, b in ctx.batches.items():
        b["failed_unlisted"] = unmatched.get(name, 0)
        b["failed_known_findings"] = max(0, b["failed"] - b["failed_unlisted"])
    b_ok = sum(1 for name in ctx.batches if unmatched.get(name, 0) == 0)
    level = getattr(mod, "LEVEL", "proof")
    cov = {
        "obligations": n_thm + n_b,
        "discharged": thm_ok + b_ok,
        "checker_cmd": " ; ".join(checker_cmds) or "(build skipped)",
        "trusted_base": list(getattr(mod, "TRUSTED", [])) + [
            "Lean 4.33.0 kernel", "axioms: propext, Classical.choice, Quot.sound only (audited per theorem)",
            "tools/py2lean.py + tools/translate.py (translator)", "tools/sv harness (generators, canonicaliser, tolerance 1e-9)",
            "SV.Fl prelude as the meaning of numpy/xarray element-wise arithmetic (no rounding)"],
        "theorems": theorems,
        "axioms_used": sorted({x for v in axioms.values() for x in v}),
        "translator": tstat,
        "evaluations": ctx.evaluations,
        "distinct_nontrivial": ctx.nontrivial,
        "rule": getattr(mod, "RULE", "distinct canonical input hash; non-trivial = at least one non-NaN output and not in the malformed stream"),
        "samples": ctx.samples or [{"note": "no generated cases"}],
        "batches": ctx.batches,
        "branch_histogram": ctx.hist,
        "disagreements_checked": len([f for f in ctx.failures if f["kind"] == "correspondence"]),
        "broken_obligations": broken,
        "known_findings_reproduced": sorted(known_hits),
        "known_findings_not_reproduced": sorted(f["id"] for f in findings if f["id"] not in known_hits),
        "machinery_problems": machinery,
        "notes": ctx.notes,
        "exhaustive_parts": ctx.exhaustive,
        "anchored_source_changed": (changed_src if 'changed_src' in dir() else []),
    }
    if level == "other":
        cov["explanation"] = getattr(mod, "EXPLANATION", "")
    ev = {
        "property_id": prop, "tier": tier, "seed": seed, "level": level, "coverage": cov,
        "assumptions": list(getattr(mod, "ASSUMPTIONS", [])),
        "wall_s": round(time.time() - t0, 2), "violations": violations,
    }
    os.makedirs(core.EVID, exist_ok=True)
    with open(os.path.join(core.EVID, f"{prop}.json"), "w") as f:
        json.dump(core.canon(ev), f, indent=1)
    for ln in lines:
        print(ln)
    print(f"[{prop}] tier={tier} seed={seed} theorems={thm_ok}/{n_thm} batches={b_ok}/{n_b} "
          f"cases={ctx.evaluations} distinct={ctx.nontrivial} wall={ev['wall_s']}s "
          f"violations={violations} known={len(known_hits)}")
    if machinery:
        print(f"MACHINERY-ERROR property={prop} {json.dumps(machinery)[:600]}")
        sys.exit(2)
    sys.exit(1 if violations else 0)


if __name__ == "__main__":
    main()
