"""mkseedtable.py <round-tag> — prints the DESIGN §12 markdown table for the seeded changes of one round (e.g. r3) from
seeded/<id>/meta.json (fields property, file, function, what, first_pass_check_results, detection)."""
import glob
import json
import os
import sys

HERE = os.path.dirname(os.path.dirname(os.path.abspath(__file__)))
tag = sys.argv[1] if len(sys.argv) > 1 else "r3"
print("| seeded change | file :: function | what it breaks | first pass (target check) | after strengthening |")
print("|---|---|---|---|---|")
for d in sorted(glob.glob(os.path.join(HERE, "seeded", f"C*-{tag}-m*"))):
    m = json.load(open(os.path.join(d, "meta.json")))
    det = m.get("detection", {})
    first = det.get("first_pass")
    if not first:
        r = " ".join(m.get("first_pass_check_results", []))
        first = "caught" if " rc=1 " in r else ("MISSED" if " rc=0 " in r else "?")
        if "no-failing-input-found" in r:
            first = "caught (no-failing-input-found)"
    fn = m.get("file", "").replace("src/scores/", "")
    what = (m.get("what") or "").replace("|", "/").replace("\n", " ")[:110]
    print(f"| {os.path.basename(d)} | {fn} :: {m.get('function','')} | {what} | {first} | {det.get('after_strengthening','')} |")
