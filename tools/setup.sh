#!/bin/bash
# MANIFEST.setup_cmd: regenerate Gen/ from /repo, then build (offline) every Lean target a claimed check needs.
set -e
DIR="$(cd "$(dirname "${BASH_SOURCE[0]}")/.." && pwd)"
cd "$DIR"
/venv/bin/python tools/translate.py all > /dev/null 2>&1 || true
/venv/bin/python tools/mkroot.py 2>/dev/null || true
mkdir -p lean/.lake
cd lean
flock .lake/verif.lock lake build $(cat ../tools/targets.txt)
