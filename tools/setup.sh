#!/bin/bash
# MANIFEST.setup_cmd: regenerate Gen/ from /repo, then build (offline) every Lean target a claimed check needs.
# One target that does not build must not take the others down: each check rebuilds and reports its own modules.
DIR="$(cd "$(dirname "${BASH_SOURCE[0]}")/.." && pwd)"
cd "$DIR"
/venv/bin/python tools/translate.py all > /dev/null 2>&1 || true
/venv/bin/python tools/mkroot.py 2>/dev/null || true
mkdir -p lean/.lake
cd lean
if ! flock .lake/verif.lock lake build $(cat ../tools/targets.txt); then
  echo "setup: building all targets at once failed; building them one by one" >&2
  for t in $(cat ../tools/targets.txt); do
    flock .lake/verif.lock lake build "$t" > /dev/null 2>&1 || echo "setup: target $t does not build (its check will report it)" >&2
  done
fi
exit 0
