#!/bin/bash
# evaluate every seeded mutation under /tmp/seed/Cxx/out against its target property's check (sequential)
cd "$(dirname "$0")/.."
RES=seeded/results6.txt
touch $RES
for d in /tmp/seed6/C*; do
  id=$(basename $d)
  for m in $d/out/m1.diff $d/out/m2.diff; do
    [ -f "$m" ] || continue
    [ -f "${m%.diff}.json" ] || continue     # the seeding agent has finished this mutation
    key="$id/$(basename $m)"
    grep -q "^$key " $RES && continue
    line=$(tools/seedtest.sh $m $id | tail -1)
    echo "$line" >> $RES
  done
done
