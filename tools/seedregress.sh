#!/bin/bash
# tools/seedregress.sh [pattern] — re-run every stored seeded change (seeded/<id>/patch.diff) against its target property's quick
# check, sequentially, in the evaluation worktree /tmp/seedeval (a git worktree of /repo HEAD outside /repo and /verif).
# Run it from a COPY of /verif (it regenerates Gen/ from the changed tree); results go to seeded/regress.txt of that copy.
cd "$(dirname "$0")/.."
PAT=${1:-C}
OUT=${2:-seeded/regress.txt}
: > $OUT
for d in $(ls -d seeded/C*/ | grep -E "seeded/(${PAT})"); do
  id=$(basename $d)
  [ -f $d/patch.diff ] || continue
  prop=$(python3 -c "import json;print(json.load(open('$d/meta.json'))['property'])")
  line=$(tools/seedtest.sh "$(pwd)/${d%/}/patch.diff" $prop | tail -1)
  rc=$(echo "$line" | sed -n 's/.* rc=\([0-9]*\) .*/\1/p')
  nf=$(echo "$line" | grep -c 'no-failing-input-found')
  echo "$id check=$prop rc=$rc nofailinginput=$nf :: $(echo "$line" | cut -c1-200)" >> $OUT
done
echo "done: $(grep -c ' rc=1 ' $OUT) reported of $(wc -l < $OUT)"
