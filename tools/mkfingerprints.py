"""mkfingerprints.py — records, per property, a hash of the normalised AST of every function in the property's anchored
source files (properties.jsonl → anchors.files) at /repo's current HEAD, into tools/fingerprints.json (committed).
`check.py` recomputes them on every run: a function whose hash differs from the recorded one means "the source the hand
model / generators were validated against has changed" — never a violation by itself, but the failing-input search then
runs with its boosted budget (as after a broken proof obligation), and the evidence lists the changed functions.
Re-run after every `fix:` commit in /repo."""
import json
import os
import subprocess
import sys

HERE = os.path.dirname(os.path.abspath(__file__))
sys.path.insert(0, HERE)
from sv import core  # noqa: E402

if __name__ == "__main__":
    out = {"base_commit": subprocess.run(["git", "-C", core.REPO, "rev-parse", "HEAD"], capture_output=True, text=True).stdout.strip(),
           "properties": {}}
    for line in open(os.path.join(core.VERIF, "properties.jsonl")):
        p = json.loads(line)
        out["properties"][p["id"]] = core.source_fingerprints(p["anchors"]["files"])
    with open(os.path.join(HERE, "fingerprints.json"), "w") as f:
        json.dump(out, f, indent=1, sort_keys=True)
    print({k: len(v) for k, v in out["properties"].items()})
