"""C20 coverage audit: every `if …: raise ValueError/TypeError/DimensionError` of the anchored files (public functions and
their check helpers, including helpers imported from other modules) against what the C20 check translates or probes.

    /venv/bin/python tools/c20_audit.py            # markdown table (the section "guard-site audit" of notes/C20.md)
    /venv/bin/python tools/c20_audit.py --json     # machine readable
    /venv/bin/python tools/c20_audit.py --summary  # one line

Status of a site:
  translated   a row of tools/gen/Guards.py TABLE selects exactly this `if` (found by re-running its selection), so it has a
               Lean definition in Gen/Guards.lean, an `_iff` theorem in Props/C20.lean and boundary probes in c20.py
  probe-only   the translator cannot take the test (helper call, set / dict / function-object membership, `else: raise`);
               PROBED below names the probe site of tools/sv/props/c20.py that drives it against the documented rule
  uncovered    neither; the category says why it is outside C20 (dimension names, shapes, dtypes, option combinations, data
               conditions) - or `PARAMETER` if it looks like a numeric / enumerated parameter boundary that should be added
Uses SCORES_REPO like the translator.
"""
from __future__ import annotations

import ast
import json
import os
import re
import sys

HERE = os.path.dirname(os.path.abspath(__file__))
sys.path.insert(0, HERE)
import translate  # noqa: E402

sys.modules.setdefault("translate", translate)
import importlib.util  # noqa: E402

_spec = importlib.util.spec_from_file_location("gen_Guards", os.path.join(HERE, "gen", "Guards.py"))
Guards = importlib.util.module_from_spec(_spec)
_spec.loader.exec_module(Guards)

REPO = translate.REPO
P = "src/scores/"
EXC = {"ValueError", "TypeError", "DimensionError"}

# (file below src/scores, function, source text of the test) -> probe site(s) in tools/sv/props/c20.py
PROBED = {
    ("utils.py", "check_binary", "not set(unique_values).issubset(binary_set)"): "brier_score.obs[binary], roc_curve_data.obs[binary]",
    ("probability/crps_impl.py", "check_crps_cdf_inputs", "not coords_increasing(fcst, threshold_dim)"): "crps_cdf.threshold_coords",
    ("probability/crps_impl.py", "check_crps_cdf_inputs",
     "threshold_weight is not None and (not coords_increasing(threshold_weight, threshold_dim))"): "crps_cdf.threshold_weight_coords",
    ("probability/crps_impl.py", "check_crps_cdf_brier_inputs", "not coords_increasing(fcst, threshold_dim)"):
        "crps_cdf_brier_decomposition.threshold_coords",
    ("probability/checks.py", "check_nan_decreasing_inputs", "not coords_increasing(cdf, threshold_dim)"): "decreasing_cdfs.threshold_coords",
    ("processing/cdf/cdf_functions.py", "fill_cdf", "not cdf_values_within_bounds(cdf)"): "fill_cdf.cdf[values]",
    ("continuous/murphy_impl.py", "_check_murphy_inputs", "functional is not None and functional not in VALID_SCORING_FUNC_NAMES"):
        "murphy_score.functional, murphy_thetas.functional",
    ("processing/isoreg_impl.py", "_iso_arg_checks", "functional not in ['mean', 'quantile', None]"): "isotonic_fit.functional",
    ("probability/brier_impl.py", "brier_score_for_ensemble",
     "event_threshold_operator not in [operator.ge, operator.gt, operator.le, operator.lt]"): "brier_score_for_ensemble.event_threshold_operator",
    ("processing/discretise.py", "comparative_discretise", "else"): "comparative_discretise.mode, binary_discretise.mode",
    ("utils.py", "check_dims", "mode not in check_modes"): "check_dims.mode",
    ("utils.py", "BinaryOperator._validate", "not self.op in self.valid_ops.values()"): "fss_2d_single_field.threshold_operator",
    ("emerging/risk_matrix.py", "_check_risk_matrix_score_inputs", "len(disallowed_obs_values) > 0"): "risk_matrix_score.obs[binary]",
}

# explicit reasons for sites the heuristic below would misfile
REASON = {
    ("stats/statistical_tests/diebold_mariano_impl.py", "_dm_test_statistic", "method not in ['HLN', 'HG']"):
        ("enumerated option, unreachable", "shadowed by diebold_mariano's own `method` guard (translated: dm_method)"),
    ("processing/cdf/cdf_functions.py", "observed_cdf",
     "np.isnan(obs).all() and (threshold_values is None or np.isnan(threshold_values_as_array).all())"):
        ("data condition", "all-NaN observations and no thresholds: not a parameter boundary"),
    ("probability/checks.py", "check_nan_decreasing_inputs", "not all_nan_or_no_nan.all()"):
        ("data condition", "partly-NaN CDFs: not a parameter boundary"),
    ("emerging/risk_matrix.py", "weights_from_warning_scaling", "not (np.unique(scaling_matrix[:, 0]) == np.array([0])).all()"):
        ("structural", "first column of the scaling matrix all zero: a pattern, not a boundary (fixtures keep it satisfied)"),
    ("emerging/risk_matrix.py", "weights_from_warning_scaling", "not (np.unique(scaling_matrix[-1, :]) == np.array([0])).all()"):
        ("structural", "last row of the scaling matrix all zero: a pattern, not a boundary (fixtures keep it satisfied)"),
    ("processing/isoreg_impl.py", "_tidy_ir_inputs", "len(new_fcst) == 0"): ("data condition", "nothing left after dropping NaN pairs"),
}

HEUR = [
    (r"dims|_dim\b|\.coords\b|'threshold' in", "dimension names / coordinates"),
    (r"\bshape\b|\blen\(|_len\b", "shape / length"),
    (r"dtype|isinstance|hasattr", "dtype / type"),
    (r"is None|is not None|None not in", "option combination"),
    (r"array_equal", "dimension names / coordinates"),
]


def scores_index():
    """top-level function name -> (rel path, FunctionDef) over src/scores"""
    idx = {}
    root = os.path.join(REPO, P)
    for d, _, fs in os.walk(root):
        for fn in fs:
            if fn.endswith(".py"):
                rel = os.path.relpath(os.path.join(d, fn), REPO)
                try:
                    tree = ast.parse(open(os.path.join(d, fn)).read())
                except SyntaxError:
                    continue
                for s in tree.body:
                    if isinstance(s, ast.FunctionDef):
                        idx.setdefault(s.name, (rel, s))
    return idx


def raises_of(node, qual, rel, out, fn=None):
    for ch in ast.iter_child_nodes(node):
        if isinstance(ch, (ast.FunctionDef, ast.ClassDef)):
            raises_of(ch, qual + [ch.name], rel, out, ch)
            continue
        if isinstance(ch, ast.If):
            for branch, label in ((ch.body, None), (ch.orelse, "else")):
                rs = [x for x in branch if isinstance(x, ast.Raise)]
                if not rs or (label == "else" and len(branch) == 1 and isinstance(branch[0], ast.If)):
                    continue
                e = rs[0].exc
                exc = ast.unparse(e.func) if isinstance(e, ast.Call) else ast.unparse(e) if e is not None else "?"
                if isinstance(e, ast.Name):   # `err = ValueError(…)` … `raise err`
                    for a in ast.walk(fn or node):
                        if isinstance(a, ast.Assign) and ast.unparse(a.targets[0]) == exc and isinstance(a.value, ast.Call):
                            exc = ast.unparse(a.value.func)
                if exc.split(".")[-1] not in EXC:
                    continue
                test = "else" if label else ast.unparse(ch.test)
                out.append(dict(file=rel.replace(P, ""), function=".".join(qual), line=rs[0].lineno if label else ch.lineno,
                                exception=exc, test=test))
        raises_of(ch, qual, rel, out, fn)


def audit():
    anchors = json.load(open(os.path.join(HERE, "..", "notes", "prop_C20.txt")))["anchors"]["files"]
    idx = scores_index()
    sites = []
    helpers = {}
    for rel in anchors:
        tree = ast.parse(open(os.path.join(REPO, rel)).read())
        raises_of(tree, [], rel, sites)
        for n in ast.walk(tree):   # check helpers defined in other modules
            if isinstance(n, ast.Call) and isinstance(n.func, ast.Name) and n.func.id in idx:
                hrel, hfn = idx[n.func.id]
                if hrel not in anchors and re.search(r"check|within_bounds|increasing", n.func.id):
                    helpers[(hrel, n.func.id)] = hfn
    for (hrel, name), hfn in sorted(helpers.items()):
        raises_of(hfn, [name], hrel, sites, hfn)
    # which `if` does each translator row select
    trees = {}
    translated = {}
    for name, rel, func, names, ordinal, params, subst in Guards.TABLE:
        try:
            g, _ = Guards.select_guard(trees, rel, func, names, ordinal, params, subst)
            translated.setdefault((rel.replace(P, ""), g.lineno), []).append(name)
        except Exception as ex:  # noqa: BLE001
            translated.setdefault(("?", name), []).append(f"{name}: {ex}")
    for s in sites:
        key = (s["file"], s["function"], s["test"])
        if (s["file"], s["line"]) in translated:
            s["status"], s["by"] = "translated", ", ".join(translated[(s["file"], s["line"])])
        elif key in PROBED:
            s["status"], s["by"] = "probe-only", PROBED[key]
        else:
            s["status"] = "uncovered"
            if key in REASON:
                s["category"], s["by"] = REASON[key]
            else:
                s["category"] = next((c for rx, c in HEUR if re.search(rx, s["test"])), "PARAMETER")
                s["by"] = ""
    return sites


def summary(sites):
    n = {k: sum(1 for s in sites if s["status"] == k) for k in ("translated", "probe-only", "uncovered")}
    todo = [f"{s['file']}:{s['function']}:{s['line']}" for s in sites if s.get("category") == "PARAMETER"]
    return (f"{len(sites)} guard sites: {n['translated']} translated, {n['probe-only']} probe-only, {n['uncovered']} outside C20 "
            f"(dimension names, shapes, dtypes, option combinations, data conditions); unclassified parameter guards: {todo or 'none'}")


def main(argv):
    sites = audit()
    if "--json" in argv:
        print(json.dumps(sites, indent=1))
        return
    if "--summary" in argv:
        print(summary(sites))
        return
    print(summary(sites) + "\n")
    for status in ("translated", "probe-only", "uncovered"):
        rows = [s for s in sites if s["status"] == status]
        print(f"### {status} ({len(rows)})\n")
        print("| file:function:line | test | " + ("category | note |" if status == "uncovered" else "covered by |"))
        print("|---|---|---|" + ("---|" if status == "uncovered" else ""))
        for s in rows:
            t = s["test"].replace("|", "\\|")
            t = t if len(t) <= 110 else t[:107] + "..."
            loc = f"{s['file']}:{s['function']}:{s['line']}"
            if status == "uncovered":
                print(f"| {loc} | `{t}` | {s['category']} | {s['by']} |")
            else:
                print(f"| {loc} | `{t}` | {s['by']} |")
        print()


if __name__ == "__main__":
    main(sys.argv[1:])
